"""C07 — totality: no input makes the library panic (Totality.tla)."""
import os
from vlib import Check, tlc_mc, run_harness, tlc_validate, workdir, build_harness

REPLAY = {"C07": {"driver": "total", "trace_module": "Trace_Totality", "trace_cfg": "Trace_Totality.cfg", "boundary": ("call",)}}


def run(tier):
    c = Check("C07", tier)
    wd = workdir("C07")
    build_harness()
    cases = os.path.join(wd, "cases.ndjson")
    mc = tlc_mc("MC_Totality", "MC_Totality.cfg", wd, workers=4, cases_out=cases, coverage=False)
    c.add_mc(mc)
    trace = os.path.join(wd, "trace.ndjson")
    run_harness("total", cases, trace, timeout=6000, env={"TOTAL_TIMEOUT": "30" if tier == "quick" else "90"})
    v = tlc_validate("Trace_Totality", "Trace_Totality.cfg", trace, wd, shards=1, boundary=("call",))
    c.add_validation(v, cases_path=cases, behaviours=mc["replays"], boundary=("call",))
    # specification growth beyond the listed properties: what Log::from_proxy writes (Log.tla); panics count, content is drift
    lcases = os.path.join(wd, "log.cases.ndjson")
    mcl = tlc_mc("MC_Log", "MC_Log.cfg", wd, workers=4, cases_out=lcases, coverage=False)
    c.add_mc(mcl)
    ltrace = os.path.join(wd, "log.trace.ndjson")
    run_harness("log", lcases, ltrace)
    vl = tlc_validate("Trace_Log", "Trace_Log.cfg", ltrace, wd, shards=4, boundary=("log",))
    c.add_validation(vl, cases_path=lcases, behaviours=mcl["replays"], boundary=("log",))
    c.extra["log_entries_checked_against_Log_tla"] = mcl["replays"]
    c.assumptions = ["totality over the hostile value classes enumerated in Totality.tla (single dimensions and listed pairs) and over everything the other checks drive "
                     "(every driver records a panic as an event; the C null patterns are in C18); arbitrary byte-level mutation of JSON / regex / HTML is not this technique",
                     "the harness is built optimised (opt-level 2, as shipped) with overflow checks and debug assertions on; calls run in a child process with the default 8 MiB stack "
                     "and a wall-clock bound (abort and timeout are recorded as data)"]
    return c.finish(explanation="Totality.tla makes every public entry point (rule loading -> matching -> action -> header / body filtering -> logging pipeline; explain / impact / "
                                "test-examples / unit-ids analyses; Log::from_proxy; the tokenizer) an action enabled for EVERY argument of its hostile value classes, and states "
                                "[](called => <>returned). TLC enumerates every single-dimension call and every listed pair (618 calls); the harness concretises each class and runs the "
                                "call on the real library in a child process; TLC validates that every recorded call is one of the specification and is followed by return (never "
                                "panic, abort or timeout).", exhaustive=True)
