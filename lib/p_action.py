"""C05, C06, C11 — the action machine (Action.tla)."""
import os
from vlib import Check, tlc_mc, run_harness, tlc_validate, workdir, require_actions, build_harness

CLASSES = {
    "C05": {"status", "headers", "body", "log", "applied", "attribution", "script_mismatch", "unit_trace_changes_result", "panic", "trace_rejected"},
    "C06": {"handoff_decode", "handoff_reserialise", "handoff_behaviour", "request_json_roundtrip", "panic", "trace_rejected"},
    "C11": {"order_permutation", "order_insertion", "rebuild_differs", "panic", "trace_rejected"},
}
CFGS = {
    ("C05", "quick"): ["MC_Action_quickA.cfg", "MC_Action_quickB.cfg", "MC_Action_quickE.cfg", "MC_Action_quickF.cfg", "MC_Action_quickG.cfg"],
    ("C05", "thorough"): ["MC_Action_thoroughA.cfg", "MC_Action_thoroughB.cfg", "MC_Action_thoroughC.cfg", "MC_Action_quickE.cfg", "MC_Action_thoroughF.cfg", "MC_Action_quickG.cfg"],
    ("C06", "quick"): ["MC_Action_quickB.cfg", "MC_Action_quickD.cfg", "MC_Action_quickE.cfg", "MC_Action_quickG.cfg"],
    ("C06", "thorough"): ["MC_Action_thoroughB.cfg", "MC_Action_thoroughD.cfg", "MC_Action_quickE.cfg", "MC_Action_thoroughA.cfg"],
    ("C11", "quick"): ["MC_Action_quickD.cfg"],
    ("C11", "thorough"): ["MC_Action_thoroughD.cfg", "MC_Action_thoroughD4.cfg", "MC_Action_thoroughC.cfg"],
}
REPLAY = {p: {"driver": "act", "trace_module": "Trace_Action", "trace_cfg": "Trace_Action.cfg", "boundary": ("fold",),
              "env": {"ACT_RICH": "1"} if p == "C06" else {}} for p in CLASSES}

EXPL = {
    "C05": "TLC enumerates matched rule sets (ranks, status, response-code conditions incl. exclusion, header/body filters, target, "
           "log, reset, stop, sampling x override) and query scripts, checking the code-shaped fold/merge/queries against the "
           "declarative window semantics (Eff, RefStatus, RefHeaders, RefBody, RefLog, RefApplied) in every state; each behaviour "
           "is replayed through real Rule JSON -> Router -> Action::from_routes_rule -> queries and the trace is judged by layer P.",
    "C06": "Same behaviours with a JSON hand-off (Handoff action = stuttering on the abstract state) inserted in the scripts; the "
           "harness keeps a second copy of the action that never goes through serde and records both; TLC checks decode success, "
           "hash(ser(de(ser(a)))) = hash(ser(a)) and that every later observation equals the copy's and the specification's.",
    "C11": "TLC enumerates rule sets with every rank-tie pattern and conflicting effects; for each the harness folds every "
           "permutation of the real match vector and every insertion order of the router and records the hashes of the serialised "
           "actions; TLC checks they are all equal and that the filter order equals the model's (rank desc, id desc).",
}


def run_prop(prop, tier):
    c = Check(prop, tier)
    wd = workdir(prop)
    build_harness()
    total = 0
    for cfg in CFGS[(prop, tier)]:
        cases = os.path.join(wd, cfg + ".cases.ndjson")
        mc = tlc_mc("MC_Action", cfg, wd, workers=10, cases_out=cases, timeout=3000)
        require_actions(mc, ["AddRule", "Fold", "QStatus", "QHeaders", "QBody", "QLog", "Handoff"])
        c.add_mc(mc)
        total += mc["replays"]
        trace = os.path.join(wd, cfg + ".trace.ndjson")
        run_harness("act", cases, trace, env={"ACT_RICH": "1"} if prop == "C06" else {})
        v = tlc_validate("Trace_Action", "Trace_Action.cfg", trace, wd, shards=10, boundary=("fold",))
        c.add_validation(v, cases_path=cases, behaviours=mc["replays"], boundary=("fold",), classes=CLASSES[prop])
    if prop == "C06":
        import p_router
        p_router.router_part(c, wd, "C06", tier)
    if prop == "C11":
        # "rebuilding the router yields the same action": histories with updates that move a rule to another bucket
        import p_router
        p_router.router_part(c, wd, "C11", tier)
    c.assumptions = ["rule effects range over the pools of MC_Action.tla; response codes probed: 0, 200, 404, 500",
                     "applied-rule lists are compared as sets (the property does not fix their order)",
                     "serialised actions are compared through a 64-bit FNV hash recorded by the harness"]
    return c.finish(explanation=EXPL[prop], exhaustive=True)


def run_c05(tier):
    return run_prop("C05", tier)


def run_c06(tier):
    return run_prop("C06", tier)


def run_c11(tier):
    return run_prop("C11", tier)
