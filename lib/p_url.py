"""C09 — URL normalisation (Url.tla, UrlMachine.tla)."""
import os
from vlib import Check, tlc_mc, run_harness, tlc_validate, workdir, build_harness

REPLAY = {"C09": {"driver": "url", "trace_module": "Trace_Url", "trace_cfg": "Trace_Url_thorough.cfg", "boundary": ("url",)}}


def run(tier):
    c = Check("C09", tier)
    wd = workdir("C09")
    build_harness()
    cfg = "MC_Url_quick.cfg" if tier == "quick" else "MC_Url_thorough.cfg"
    tcfg = "Trace_Url_quick.cfg" if tier == "quick" else "Trace_Url_thorough.cfg"
    cases = os.path.join(wd, "cases.ndjson")
    mc = tlc_mc("MC_Url", cfg, wd, workers=12, cases_out=cases, coverage=False, timeout=6000, xmx="12g")
    c.add_mc(mc)
    trace = os.path.join(wd, "trace.ndjson")
    run_harness("url", cases, trace, universe=mc["universe"])
    v = tlc_validate("Trace_Url", tcfg, trace, wd, shards=12, boundary=("url",), universe_file=cases + ".universe.json", timeout=6000)
    c.add_validation(v, cases_path=cases, behaviours=mc["replays"], boundary=("url",), universe=mc["universe"])
    nurls = len(mc["universe"]["urls"])
    c.extra["url_pairs_probed"] = mc["replays"] * nurls
    c.extra["urls_in_universe"] = nurls
    c.assumptions = ["URLs are token sequences over the presentation tokens of Url.tla (letters in both cases, space, +, %20, %2B/%2b, quote, a raw and "
                     "an escaped non-ASCII character, repeated / empty / valueless parameters, a lone '?'); rule sources do not name a configured marketing parameter",
                     "pairs whose keys collide after case folding are not judged (the folded map would not be a function)"]
    return c.finish(explanation="Url.tla transcribes both normalisation paths token by token (layer I) and defines Canonical(u, cfg) (layer P). TLC checks, for every "
                                "configuration (marketing-ignore x case x pass) and every rule URL, layer I = layer P against EVERY request URL of the universe outside two named "
                                "deviation classes, and exact agreement when marketing parameters are ignored and matching is case sensitive. For each (configuration, rule URL) "
                                "the harness builds the real rule and router and matches a request for every URL of the universe (self match, discrimination, permutation, "
                                "marketing parameters, case, re-encoding are all instances), records Location and rebuild idempotence; TLC judges each pair with Canonical.",
                    exhaustive=True)
