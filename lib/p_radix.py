"""C08, C12 — the regex radix tree (RadixOps.tla, RadixTree.tla, PrefixChar.tla)."""
import json
import os
from vlib import Check, ToolError, tlc_mc, run_harness, tlc_validate, workdir, require_actions, build_harness, log, apalache_inductive

import p_router as _pr
CLASSES = {
    "C08": {"find_missing", "find_spurious", "find_duplicate", "len", "get", "remove_return", "replace",
            "prefix_cut_inside_token", "prefix_not_common", "panic", "trace_rejected"},
    "C12": {"cache_changes_find", "cache_changes_len", "cache_budget", "panic", "trace_rejected"} | _pr.CLASSES["C12"],
}
CFGS = {
    "quick": ["MC_RadixTree_quick.cfg", "MC_RadixTree_nonascii.cfg", "MC_RadixTree_paths.cfg", "MC_RadixTree_siblings.cfg", "MC_RadixTree_big.cfg", "MC_RadixTree_deepq.cfg", "MC_RadixTree_nest.cfg", ("MC_RadixTree_sim.cfg", 10, 9)],
    "thorough": ["MC_RadixTree_quick.cfg", "MC_RadixTree_nonascii.cfg", "MC_RadixTree_paths.cfg", "MC_RadixTree_siblings.cfg", "MC_RadixTree_big.cfg", "MC_RadixTree_deep.cfg", "MC_RadixTree_nest.cfg", "MC_RadixTree_thoroughA.cfg", "MC_RadixTree_thoroughB.cfg", ("MC_RadixTree_sim.cfg", 150, 9)],
}
REPLAY = {p: {"driver": "radix", "trace_module": "Trace_RadixTree", "trace_cfg": "Trace_RadixTree.cfg"} for p in CLASSES}


def run_prop(prop, tier):
    c = Check(prop, tier)
    wd = workdir(prop)
    build_harness()
    # 1. the abstraction theorem of the prefix function + its binding to the real function (H2)
    if prop == "C08":
        pcases = os.path.join(wd, "prefix.cases.ndjson")
        mc = tlc_mc("PrefixChar", "PrefixChar_quick.cfg", wd, workers=8, cases_out=pcases)
        c.add_mc(mc)
        if tier == "thorough":
            c.add_mc(tlc_mc("PrefixChar", "PrefixChar_thorough.cfg", wd, workers=12, timeout=3000))
        ptrace = os.path.join(wd, "prefix.trace.ndjson")
        run_harness("radix_prefix", pcases, ptrace)
        v = tlc_validate("Trace_PrefixChar", "Trace_PrefixChar.cfg", ptrace, wd, shards=6, boundary=("prefix",))
        c.add_validation(v, cases_path=pcases, behaviours=mc["replays"], boundary=("prefix",), classes=CLASSES[prop])
        c.extra["prefix_pairs_replayed"] = mc["replays"]
    # 2. the tree machine
    for cfg in CFGS[tier]:
        sim = depth = None
        if isinstance(cfg, tuple):      # seeded random long histories (-simulate num per worker, depth)
            cfg, sim, depth = cfg
        if prop == "C12" and ("paths" in cfg or "siblings" in cfg or "nest" in cfg):
            continue    # universes without (or with hardly any) cache operation: they belong to C08
        cases = os.path.join(wd, cfg + ".cases.ndjson")
        mc = tlc_mc("MC_RadixTree", cfg, wd, workers=4 if sim else 12, cases_out=cases, timeout=6000, xmx="12g", simulate=sim, depth=depth)
        if not sim:
            require_actions(mc, ["DoInsert", "DoRemove", "DoRetain", "DoCache"])
        c.add_mc(mc)
        # sanity of the model's regex semantics against the regex crate (tool error if they differ)
        rxc = os.path.join(wd, cfg + ".rx.cases.ndjson")
        with open(rxc, "w") as f:
            for r in mc["blobs"].get("RXCASES", []):
                f.write(json.dumps(r) + "\n")
        rxt = os.path.join(wd, cfg + ".rx.trace.ndjson")
        run_harness("radix_rx", rxc, rxt, universe=mc["universe"])
        vr = tlc_validate("Trace_PrefixChar", "Trace_PrefixChar.cfg", rxt, wd, shards=1, boundary=("rx",))
        if vr["notes"] or not vr["accepted"]:
            raise ToolError("the model's regex semantics differs from the regex crate: %s" % vr["notes"][:3])
        trace = os.path.join(wd, cfg + ".trace.ndjson")
        run_harness("radix", cases, trace, universe=mc["universe"])
        v = tlc_validate("Trace_RadixTree", "Trace_RadixTree.cfg", trace, wd, shards=12)
        c.add_validation(v, cases_path=cases, behaviours=mc["replays"], classes=CLASSES[prop])
    if prop == "C12":
        # design-level liveness of Router::cache's retry loop (terminates for every behaviour of the matcher's cache contract)
        c.add_mc(tlc_mc("RouterCacheLoop", "RouterCacheLoop.cfg", wd, workers=4, coverage=False))
        # ... and, for an unbounded budget, the inductive invariant behind LevelBound / GivesUpLate (Apalache)
        c.extra["apalache_obligations_discharged"] = apalache_inductive("RouterCacheLoopInd", wd)
        import p_router
        p_router.router_part(c, wd, "C12", tier)
    c.assumptions = ["patterns are token sequences over the literals a b / . and the marker groups of RadixOps.tla; the model's "
                     "matching semantics is checked against the regex crate on every (pattern, probe) pair at the start of each run",
                     "ids are unique across patterns (as the router uses the tree); values are id:version strings"]
    expl = {
        "C08": "TLC explores every history of insert/remove/retain/cache over the pattern pool (VIEW hides the history, so each distinct "
               "(tree, live set) is expanded once) checking FindCorrect/LenCorrect/GetCorrect/PrefixInv/RemoveReturnsValue on the "
               "code-shaped tree; one history per distinct final state is replayed on a real RegexTreeMap and after every operation "
               "len, find over the probe strings, get per pattern and the structural snapshot (hook H1) are validated by TLC: verdict "
               "against the linear scan, drift against the model's exact tree shape. PrefixChar.tla proves by enumeration that the "
               "character-level prefix function cuts at token boundaries; every pair is replayed into the real function (hook H2).",
        "C12": "Same histories, with cache(limit, level) interleaved at every position; the harness runs a twin tree that is never "
               "cached and TLC compares find/len/remove results of the two after every operation (real vs real), the remaining budget "
               "with the limit, and (drift) the compiled flags and returned budget with the model of the level-by-level algorithm.",
    }
    return c.finish(explanation=expl[prop], exhaustive=True)


def run_c08(tier):
    return run_prop("C08", tier)


def run_c12_tree(tier):
    return run_prop("C12", tier)
