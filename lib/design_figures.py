#!/usr/bin/env python3
"""Rewrites the figures block of DESIGN.md (between the FIGURES markers) from the committed evidence files."""
import glob
import json
import os
import re

ROOT = os.path.dirname(os.path.dirname(os.path.abspath(__file__)))
rows = []
for f in sorted(glob.glob(os.path.join(ROOT, "evidence", "C*.json"))):
    d = json.load(open(f))
    c = d["coverage"]
    runs = c.get("tlc_runs", [])
    rows.append("| %s | %s | %d | %d | %d | %d | %s | %s |" % (
        d["property_id"], d["tier"], len(runs), c.get("states", 0), c.get("traces_validated_against_impl", 0), c.get("events_validated", 0),
        ", ".join("%s (%d)" % (k, v) for k, v in sorted((c.get("known_findings_hit") or {}).items())) or "—", int(d.get("wall_s", 0))))
block = ("<!-- FIGURES:BEGIN -->\n| id | tier | TLC runs | distinct states | behaviours replayed | events validated | known findings hit | wall s |\n"
         "|---|---|---|---|---|---|---|---|\n" + "\n".join(rows) + "\n<!-- FIGURES:END -->")
p = os.path.join(ROOT, "DESIGN.md")
s = open(p).read()
if "<!-- FIGURES:BEGIN -->" in s:
    s = re.sub(r"<!-- FIGURES:BEGIN -->.*?<!-- FIGURES:END -->", lambda m: block, s, flags=re.S)
else:
    s = s.replace("Details of each specification are in the module headers.",
                  "Details of each specification are in the module headers. The figures of the table above are those of the first complete round; the "
                  "current ones, taken from the committed `evidence/*.json` (written by the checks themselves), are:\n\n" + block)
open(p, "w").write(s)
print("DESIGN.md figures: %d rows" % len(rows))
