"""Shared orchestration for the TLA+ based checks.

Pipeline of every check:
  1. TLC model-checks the specification (design level) and prints the behaviours to replay.
  2. The Rust harness replays them into the real library (built from /repo's working tree)
     and records an ndjson trace.
  3. TLC validates the trace against the Trace_* specification; property-level
     disagreements come back as VERDICT lines with a class computed by the specification.
  4. Evidence is written; classes listed in known_findings.json are KNOWN-FINDINGs,
     everything else is a VIOLATION with a replay file.
No oracle logic lives here or in the harness: TLC decides.
"""
import json
import os
import re
import shutil
import subprocess
import sys
import time

ROOT = os.path.dirname(os.path.dirname(os.path.abspath(__file__)))
SPEC = os.path.join(ROOT, "spec")
# the three overrides below exist only for the seeded-change self-test (lib/seedtest.py), which runs the
# checks against a scratch copy of the repository without touching /repo, /verif/evidence or /verif/.work
WORK = os.environ.get("VERIF_WORK", os.path.join(ROOT, ".work"))
EVID = os.environ.get("VERIF_EVID", os.path.join(ROOT, "evidence"))
REPLAYS = os.path.join(EVID, "replays")
HARNESS_DIR = os.environ.get("VERIF_HARNESS_DIR", os.path.join(ROOT, "harness"))
HARNESS_BIN = os.path.join(HARNESS_DIR, "target", "verif", "harness")
JAR = "/opt/veriftools/tla/tla2tools.jar"
CM = "/opt/veriftools/tla/CommunityModules-deps.jar"


class ToolError(Exception):
    pass


def seed():
    try:
        return int(os.environ.get("VERIF_SEED", "1"))
    except ValueError:
        return 1


def log(msg):
    print("[check] " + msg, flush=True)


def workdir(name):
    d = os.path.join(WORK, name)
    shutil.rmtree(d, ignore_errors=True)
    os.makedirs(d, exist_ok=True)
    return d


def build_harness():
    """Rebuild the harness (and therefore the library) from /repo's current working tree."""
    t = time.time()
    env = dict(os.environ)
    env["CARGO_NET_OFFLINE"] = "true"
    lock = os.path.join(HARNESS_DIR, "Cargo.lock")
    if not os.path.exists(lock):
        shutil.copy("/repo/Cargo.lock", lock)
    p = subprocess.run(["cargo", "build", "--profile", "verif", "--offline"], cwd=HARNESS_DIR, env=env,
                       stdout=subprocess.PIPE, stderr=subprocess.STDOUT, text=True)
    if p.returncode != 0:
        sys.stdout.write(p.stdout[-6000:])
        raise ToolError("harness build failed")
    log("harness built in %.1fs" % (time.time() - t))


def _java_cmd(xmx, xss=None, deque=False, gcthreads=None):
    cmd = ["java", "-XX:+UseParallelGC", "-Xmx" + xmx]
    if gcthreads:
        cmd.append("-XX:ParallelGCThreads=%d" % gcthreads)
    if xss:
        cmd.append("-Xss" + xss)
    if deque:
        cmd.append("-Dtlc2.tool.queue.IStateQueue=StateDeque")
    cmd += ["-cp", JAR + ":" + CM, "tlc2.TLC"]
    return cmd


_BLOB = re.compile(r'^<<"(UNIVERSE|RXCASES|[A-Z]+CASES)", (".*")>>$')
_ACT = re.compile(r"^<(\w+) line \d+, col \d+ to line \d+, col \d+ of module (\w+)>: (\d+):(\d+)")


def tlc_mc(module, cfg, wd, workers=8, xmx="6g", timeout=1500, simulate=None, depth=None, env=None,
           cases_out=None, extra=None, coverage=True):
    """Run TLC on spec/<module>.tla with spec/<cfg>. Returns a dict of statistics.
    REPLAY lines are decoded into cases_out (one JSON object per line)."""
    out = os.path.join(wd, "%s.%s.out" % (module, os.path.basename(cfg)))
    cmd = _java_cmd(xmx, xss="512m") + ["-workers", str(workers), "-metadir", os.path.join(wd, "meta-" + os.path.basename(cfg)),
                                         "-cleanup", "-noGenerateSpecTE"]
    if coverage:       # per-action counts (vacuity guard); too costly on deeply recursive specifications
        cmd += ["-coverage", "1"]
    if simulate:
        cmd += ["-simulate", "num=%d" % simulate, "-seed", str(seed())]
        if depth:
            cmd += ["-depth", str(depth)]
    if extra:
        cmd += extra
    cmd += ["-config", cfg, module + ".tla"]
    e = dict(os.environ)
    if env:
        e.update(env)
    t = time.time()
    with open(out, "w") as fo:
        try:
            p = subprocess.run(cmd, cwd=SPEC, env=e, stdout=fo, stderr=subprocess.STDOUT, timeout=timeout)
        except subprocess.TimeoutExpired:
            raise ToolError("TLC timed out on %s/%s" % (module, cfg))
    res = {"module": module, "cfg": cfg, "wall_s": round(time.time() - t, 1), "actions": {}, "log": out,
           "generated": 0, "distinct": 0, "depth": 0, "replays": 0, "error": None, "prints": [], "universe": None, "blobs": {}}
    fc = open(cases_out, "a") if cases_out else None
    seen_replays = set()
    with open(out, errors="replace") as f:
        for line in f:
            if line.startswith('<<"REPLAY", '):
                # TLC evaluates the printing invariant on every generated state: the same behaviour may be printed more than once
                hl = hash(line)
                if hl in seen_replays:
                    continue
                seen_replays.add(hl)
                res["replays"] += 1
                if fc:
                    s = line.rstrip("\n")
                    s = s[len('<<"REPLAY", '):-2]
                    fc.write(json.loads(s))
                    fc.write("\n")
                continue
            mb = _BLOB.match(line)
            if mb:
                res["blobs"][mb.group(1)] = json.loads(json.loads(mb.group(2)))
                if mb.group(1) == "UNIVERSE":
                    res["universe"] = res["blobs"]["UNIVERSE"]
                continue
            if line.startswith('<<"'):
                res["prints"].append(line.rstrip("\n"))
                continue
            m = _ACT.match(line)
            if m:
                res["actions"][m.group(1)] = res["actions"].get(m.group(1), 0) + int(m.group(4))
                continue
            m = re.match(r"^(\d+) states generated, (\d+) distinct states found", line)
            if m:
                res["generated"], res["distinct"] = int(m.group(1)), int(m.group(2))
                continue
            m = re.match(r"^The depth of the complete state graph search is (\d+)", line)
            if m:
                res["depth"] = int(m.group(1))
                continue
            m = re.match(r"^The number of states generated: (\d+)", line)   # simulation mode
            if m:
                res["generated"] = int(m.group(1))
                continue
            if line.startswith("Error:") and res["error"] is None:
                res["error"] = line.strip()
    if fc:
        fc.close()
    if p.returncode != 0 or res["error"]:
        with open(out, errors="replace") as f:
            show = 0
            for line in f:
                if line.startswith("Error:") and show == 0:
                    show = 80
                if show > 0 and not line.startswith('<<"REPLAY"'):
                    sys.stdout.write(line)
                    show -= 1
        raise ToolError("TLC reported an error on the specification %s (%s): %s — the design-level model is "
                        "broken; this is a tool error, not a verdict on the code" % (module, cfg, res["error"]))
    log("TLC %s %s: %d generated, %d distinct, depth %d, %d behaviours to replay, %.1fs"
        % (module, os.path.basename(cfg), res["generated"], res["distinct"], res["depth"], res["replays"], res["wall_s"]))
    return res


def apalache_inductive(module, wd, cinit="ConstInit", init="Init", indinit="IndInit", indinv="IndInv", safe="Safe", timeout=900):
    """Discharge an inductive invariant with Apalache (symbolic, unbounded constants): initiation, consecution, and
    IndInv => Safe.  Returns the list of obligations; any failure is a tool error (a design-level result, never a verdict)."""
    out_dir = os.path.join(wd, "apalache")
    obligations = [("initiation", ["--init=" + init, "--inv=" + indinv, "--length=0"]),
                   ("consecution", ["--init=" + indinit, "--inv=" + indinv, "--length=1"]),
                   ("implies_" + safe, ["--init=" + indinit, "--inv=" + safe, "--length=0"])]
    res = []
    for name, args in obligations:
        t = time.time()
        cmd = ["apalache-mc", "check", "--out-dir=" + out_dir, "--cinit=" + cinit] + args + [module + ".tla"]
        try:
            p = subprocess.run(cmd, cwd=SPEC, stdout=subprocess.PIPE, stderr=subprocess.STDOUT, text=True, timeout=timeout)
        except (subprocess.TimeoutExpired, FileNotFoundError) as e:
            raise ToolError("apalache did not finish on %s (%s): %s" % (module, name, e))
        if p.returncode != 0 or "EXITCODE: OK" not in p.stdout:
            sys.stdout.write(p.stdout[-3000:])
            raise ToolError("apalache: obligation %s of %s not discharged" % (name, module))
        res.append({"obligation": name, "module": module, "wall_s": round(time.time() - t, 1)})
        log("apalache %s %s: discharged in %.1fs" % (module, name, time.time() - t))
    shutil.rmtree(out_dir, ignore_errors=True)
    return res


def require_actions(mc, names):
    """Vacuity guard: every listed action must have been taken at least once."""
    for n in names:
        if mc["actions"].get(n, 0) <= 0:
            raise ToolError("vacuity: action %s of %s was never taken" % (n, mc["module"]))


LAST_HARNESS = {}


def run_harness(driver, cases, trace, env=None, timeout=3000, args=None, universe=None):
    # remembered for the replay recipe of the violations found in the trace this run produces
    LAST_HARNESS.clear()
    LAST_HARNESS.update({"driver": driver, "env": dict(env or {})})
    e = dict(os.environ)
    if env:
        e.update(env)
    if universe is not None:
        up = cases + ".universe.json"
        json.dump(universe, open(up, "w"))
        e["HARNESS_UNIVERSE"] = up
    e.setdefault("VERIF_SEED", str(seed()))
    e.setdefault("HARNESS_THREADS", "12")
    t = time.time()
    try:
        p = subprocess.run([HARNESS_BIN, driver, cases, trace] + (args or []), env=e, stdout=subprocess.PIPE,
                           stderr=subprocess.PIPE, text=True, timeout=timeout)
    except subprocess.TimeoutExpired:
        raise ToolError("harness timed out in driver " + driver)
    if p.returncode != 0:
        sys.stdout.write(p.stdout[-3000:] + p.stderr[-3000:])
        raise ToolError("harness driver %s exited with %d" % (driver, p.returncode))
    n = sum(1 for _ in open(trace))
    log("harness %s: %d events in %.1fs" % (driver, n, time.time() - t))
    return n


_TUP = re.compile(r'^<<"(VERDICT|DRIFT|KNOWN|NOTE)", (\d+), "([^"]*)"(?:, (.*))?>>$')


def _validate_one(module, cfg, trace, wd, idx, xmx, timeout, env):
    out = os.path.join(wd, "validate-%s-%d.out" % (module, idx))
    cmd = _java_cmd(xmx, xss="1g", deque=True, gcthreads=2) + ["-workers", "1", "-metadir", os.path.join(wd, "vmeta-%s-%d" % (module, idx)),
                                                  "-cleanup", "-noGenerateSpecTE", "-config", cfg, module + ".tla"]
    e = dict(os.environ)
    if env:
        e.update(env)
    e["TRACE"] = trace
    fo = open(out, "w")
    p = subprocess.Popen(cmd, cwd=SPEC, env=e, stdout=fo, stderr=subprocess.STDOUT)
    return p, fo, out


def split_trace(trace, shards, wd, boundary=("reset",)):
    """Split an ndjson trace at behaviour boundaries (events whose ev is in `boundary`)."""
    lines = open(trace).read().splitlines()
    n = len(lines)
    if shards <= 1 or n < 2000:
        return [(trace, 0)], lines
    starts = [i for i, l in enumerate(lines) if any(('"ev":"%s"' % b) in l for b in boundary)]
    if not starts or starts[0] != 0:
        starts = [0] + starts
    target = n / float(shards)
    cuts = [0]
    for k in range(1, shards):
        want = int(k * target)
        # first boundary >= want
        lo, hi = 0, len(starts)
        while lo < hi:
            mid = (lo + hi) // 2
            if starts[mid] < want:
                lo = mid + 1
            else:
                hi = mid
        if lo < len(starts) and starts[lo] > cuts[-1]:
            cuts.append(starts[lo])
    cuts.append(n)
    parts = []
    for i in range(len(cuts) - 1):
        p = os.path.join(wd, "shard-%d.ndjson" % i)
        with open(p, "w") as f:
            f.write("\n".join(lines[cuts[i]:cuts[i + 1]]) + "\n")
        parts.append((p, cuts[i]))
    return parts, lines


def tlc_validate(module, cfg, trace, wd, shards=8, xmx="3g", timeout=3000, env=None, boundary=("reset",), universe_file=None):
    """Validate a recorded trace against spec/<module>.tla. Returns dict with verdicts
    (global line numbers, 1-based), drift notes, and acceptance."""
    t = time.time()
    if universe_file:          # constants of the run (read by the trace spec through IOEnv.UNIVERSE)
        env = dict(env or {})
        env["UNIVERSE"] = universe_file
    parts, lines = split_trace(trace, shards, wd, boundary)
    procs = []
    for i, (p, off) in enumerate(parts):
        procs.append((_validate_one(module, cfg, p, wd, i, xmx, timeout, env), off, p))
    res = {"module": module, "events": len(lines), "verdicts": [], "drift": [], "known": [], "notes": [],
           "accepted": True, "rejected_at": None, "states": 0}
    for (p, fo, out), off, part in procs:
        try:
            p.wait(timeout=timeout)
        except subprocess.TimeoutExpired:
            p.kill()
            raise ToolError("trace validation timed out (%s)" % module)
        fo.close()
        accepted = False
        err = None
        with open(out, errors="replace") as f:
            for line in f:
                line = line.rstrip("\n")
                m = _TUP.match(line)
                if m:
                    rec = (int(m.group(2)) + off, m.group(3), m.group(4))
                    {"VERDICT": res["verdicts"], "DRIFT": res["drift"], "KNOWN": res["known"], "NOTE": res["notes"]}[m.group(1)].append(rec)
                elif line.startswith('<<"ACCEPTED"'):
                    accepted = True
                elif line.startswith('<<"REJECTED"'):
                    m2 = re.match(r'^<<"REJECTED", (\d+)', line)
                    res["accepted"] = False
                    at = int(m2.group(1)) + off if m2 else None
                    if res["rejected_at"] is None or (at and at < res["rejected_at"]):
                        res["rejected_at"] = at
                elif line.startswith("Error:") and err is None and "Postcondition" not in line and "postcondition" not in line:
                    err = line
                m3 = re.match(r"^(\d+) states generated, (\d+) distinct", line)
                if m3:
                    res["states"] += int(m3.group(2))
        if not accepted and res["accepted"]:
            tail = subprocess.run(["tail", "-n", "30", out], stdout=subprocess.PIPE, text=True).stdout
            sys.stdout.write(tail)
            raise ToolError("trace validation of %s did not finish (%s)" % (part, err))
    res["verdicts"].sort()
    res["drift"].sort()
    res["wall_s"] = round(time.time() - t, 1)
    res["lines"] = lines
    log("validated %d events against %s in %.1fs: %d verdict lines, %d drift lines%s"
        % (res["events"], module, res["wall_s"], len(res["verdicts"]), len(res["drift"]),
           "" if res["accepted"] else " — REJECTED at event %s" % res["rejected_at"]))
    return res


def load_known():
    p = os.path.join(ROOT, "known_findings.json")
    if not os.path.exists(p):
        return []
    return json.load(open(p)).get("findings", [])


def behaviour_of(lines, at, boundary=("reset",)):
    """The events of the behaviour containing 1-based line `at` (from its boundary event)."""
    i = at - 1
    j = i
    while j > 0 and not any(('"ev":"%s"' % b) in lines[j] for b in boundary):
        j -= 1
    return [json.loads(x) for x in lines[j:i + 1]]


class Check:
    """Accumulates what a check run covered and produces evidence + exit code."""

    def __init__(self, prop, tier, level="model_checking"):
        self.prop, self.tier, self.level = prop, tier, level
        self.t0 = time.time()
        self.states = 0
        self.transitions = 0
        self.traces = 0
        self.events = 0
        self.samples = []
        self.mc = []
        self.violations = []     # (class, replay path)
        self.known_hits = {}     # class -> count
        self.drift = 0
        self.extra = {}
        self.assumptions = []
        self.case_files = {}

    def add_mc(self, mc):
        self.states += mc["distinct"] if mc["distinct"] else mc["generated"]
        self.transitions += mc["generated"]
        self.mc.append({k: mc[k] for k in ("module", "cfg", "generated", "distinct", "depth", "replays", "wall_s", "actions")})

    def add_validation(self, v, cases_path=None, behaviours=None, boundary=("reset",), cid_key="cid", classes=None, universe=None):
        """Fold a validation result in: count traces, classify verdicts."""
        self._universe = universe
        # how to re-run one behaviour of THIS part of the check (a check may drive several specifications)
        self._recipe = {"driver": LAST_HARNESS.get("driver"), "env": LAST_HARNESS.get("env", {}), "trace_module": v["module"],
                        "trace_cfg": v["module"] + ".cfg", "boundary": list(boundary)}
        self.events += v["events"]
        if behaviours is not None:
            self.traces += behaviours
        self.drift += len(v["drift"])
        known = {(k["property"], k["class"]): k for k in load_known() if k.get("status", "open") == "open"}
        if not v["accepted"]:
            at = v["rejected_at"] or 1
            self._violation("trace_rejected", v["lines"], at, cases_path, boundary, cid_key)
        seen_cls = {}
        for (line, cls, rest) in v["verdicts"]:
            if classes is not None and cls not in classes:
                self.extra["verdicts_of_other_properties"] = self.extra.get("verdicts_of_other_properties", 0) + 1
                continue
            if (self.prop, cls) in known:
                self.known_hits[cls] = self.known_hits.get(cls, 0) + 1
                continue
            seen_cls[cls] = seen_cls.get(cls, 0) + 1
            if seen_cls[cls] <= 3 and len(self.violations) < 10:
                self._violation(cls, v["lines"], line, cases_path, boundary, cid_key)
            else:
                self.violations.append((cls, None))
        for (line, cls, rest) in v["drift"][:3]:
            self.extra.setdefault("drift_samples", []).append({"line": line, "class": cls})
        if not self.samples and v["lines"]:
            for l in v["lines"][:3]:
                self.samples.append(json.loads(l))

    def _violation(self, cls, lines, at, cases_path, boundary, cid_key):
        os.makedirs(REPLAYS, exist_ok=True)
        beh = behaviour_of(lines, at, boundary)
        case = None
        cid = None
        for e in reversed(beh):
            if isinstance(e, dict) and cid_key in e:
                cid = e[cid_key]
                break
        if cases_path and cid is not None:
            with open(cases_path) as f:
                for i, l in enumerate(f):
                    if i == cid:
                        case = json.loads(l)
                        break
        n = len([v for v in self.violations if v[1]])
        path = os.path.join(REPLAYS, "%s-%d.json" % (self.prop, n))
        evs = beh[-6:]
        blob = json.dumps(evs)
        if len(blob) > 200000:
            evs = [{"ev": e.get("ev"), "o": e.get("o"), "note": "event too large, re-run the replay to see it"} for e in evs]
        json.dump({"property": self.prop, "class": cls, "trace_line": at, "case": case,
                   "universe": getattr(self, "_universe", None), "recipe": getattr(self, "_recipe", None), "events": evs}, open(path, "w"), indent=1)
        self.violations.append((cls, path))

    def finish(self, rule="", explanation="", exhaustive=False):
        if not rule:
            rule = ("cases = the behaviours TLC prints from the bounded specification (one per distinct reachable state / case of the universe), every one replayed "
                    "into the library and validated; a behaviour counts once (TLC's state fingerprints make them distinct) and is non-trivial by construction (>= 1 call "
                    "into the library with >= 1 judged observation)")
        os.makedirs(EVID, exist_ok=True)
        known = {(k["property"], k["class"]): k for k in load_known()}
        for cls, n in sorted(self.known_hits.items()):
            k = known[(self.prop, cls)]
            print("KNOWN-FINDING: property=%s %s: %s (%d occurrences in this run)" % (self.prop, cls, k.get("what", ""), n), flush=True)
        cov = {
            "states": self.states,
            "transitions": self.transitions,
            "traces_validated_against_impl": self.traces,
            "events_validated": self.events,
            "samples": self.samples[:3] or [{"note": "no sample recorded"}],
            "rule": rule,
            "explanation": explanation,
            "exhaustive": exhaustive,
            "tlc_runs": self.mc,
            "known_findings_hit": self.known_hits,
            "model_drift_events": self.drift,
        }
        cov.update(self.extra)
        ev = {
            "property_id": self.prop,
            "tier": self.tier,
            "seed": seed(),
            "level": self.level,
            "coverage": cov,
            "assumptions": self.assumptions,
            "wall_s": round(time.time() - self.t0, 1),
            "violations": len(self.violations),
        }
        json.dump(ev, open(os.path.join(EVID, self.prop + ".json"), "w"), indent=1)
        if self.violations:
            shown = set()
            for cls, path in self.violations:
                if path and path not in shown:
                    shown.add(path)
                    print("VIOLATION property=%s replay=%s class=%s" % (self.prop, path, cls), flush=True)
            return 1
        log("%s %s: held on everything explored (%d behaviours replayed, %d events validated, %d states)"
            % (self.prop, self.tier, self.traces, self.events, self.states))
        return 0


def generic_replay(prop, module, path):
    """Re-run one recorded violation: its case goes through the harness again (real library, current
    working tree) and the resulting trace is validated again."""
    rec = json.load(open(path))
    info = rec.get("recipe") if (rec.get("recipe") or {}).get("driver") else None
    if info:
        info = dict(info, boundary=tuple(info.get("boundary") or ("reset",)))
    else:
        info = getattr(module, "REPLAY", {}).get(prop) or getattr(module, "REPLAY", {}).get("*")
    if not info:
        raise ToolError("no replay recipe for " + prop)
    if rec.get("case") is None:
        raise ToolError("replay file carries no case")
    wd = workdir(prop + "-replay")
    build_harness()
    cases = os.path.join(wd, "cases.ndjson")
    with open(cases, "w") as f:
        f.write(json.dumps(rec["case"]) + "\n")
    trace = os.path.join(wd, "trace.ndjson")
    run_harness(info["driver"], cases, trace, env=info.get("env"), universe=rec.get("universe"))
    v = tlc_validate(info["trace_module"], info["trace_cfg"], trace, wd, shards=1, boundary=info.get("boundary", ("reset",)))
    c = Check(prop, "quick")
    c.add_validation(v, cases_path=cases, behaviours=1, boundary=info.get("boundary", ("reset",)))
    for e in v["lines"]:
        print(e if len(e) < 4000 else e[:4000] + " ...")
    known = {(k["property"], k["class"]) for k in load_known() if k.get("status", "open") == "open"}
    bad = [x for x in v["verdicts"] if (prop, x[1]) not in known]
    if bad or not v["accepted"]:
        print("VIOLATION property=%s replay=%s class=%s" % (prop, path, bad[0][1] if bad else "trace_rejected"))
        return 1
    print("replay: no violation reproduced")
    return 0
