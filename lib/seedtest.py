#!/usr/bin/env python3
"""Self-test of the machinery against seeded changes.

  seedtest.py verify <dir-with-patch.diff,demo.rs,meta.json> [--check C05[,C06..]] [--tier quick]

Works entirely in a scratch worktree of /repo under /var/tmp/vp-seed (never in /repo):
  1. the patch applies to the current HEAD and the crate's own test suite still passes with it;
  2. the demonstration passes without the patch and fails with it;
  3. the registered check(s) of the property are run against the patched copy (a copy of the harness crate is
     pointed at the scratch worktree) and must print a VIOLATION line.
Prints one JSON line with the outcome. The scratch worktree and its build output are removed at the end unless
--keep is given (the next run re-uses them)."""
import json
import os
import re
import shutil
import subprocess
import sys

ROOT = os.path.dirname(os.path.dirname(os.path.abspath(__file__)))
BASE = os.environ.get("VP_SEED_BASE", "/var/tmp/vp-seed")
WT = os.path.join(BASE, "wt")
HD = os.path.join(BASE, "harness")


def sh(cmd, cwd=None, env=None, timeout=7200):
    e = dict(os.environ)
    e["CARGO_NET_OFFLINE"] = "true"
    if env:
        e.update(env)
    p = subprocess.run(cmd, cwd=cwd, env=e, shell=isinstance(cmd, str), stdout=subprocess.PIPE, stderr=subprocess.STDOUT,
                       text=True, timeout=timeout)
    return p.returncode, p.stdout


def ensure_wt():
    os.makedirs(BASE, exist_ok=True)
    if not os.path.isdir(os.path.join(WT, "src")):
        sh(["git", "-C", "/repo", "worktree", "prune"])
        rc, out = sh(["git", "-C", "/repo", "worktree", "add", "--detach", "-f", WT, "HEAD"])
        if rc != 0:
            raise SystemExit("cannot create worktree: " + out)
    else:
        sh(["git", "-C", WT, "checkout", "-q", "--detach", subprocess.run(["git", "-C", "/repo", "rev-parse", "HEAD"], stdout=subprocess.PIPE, text=True).stdout.strip()])
        sh(["git", "-C", WT, "checkout", "--", "."])
        sh(["git", "-C", WT, "clean", "-fdq", "tests", "src"])
    # harness copy pointing at the scratch worktree
    os.makedirs(HD, exist_ok=True)
    for name in ("src", ".cargo"):
        shutil.rmtree(os.path.join(HD, name), ignore_errors=True)
        shutil.copytree(os.path.join(ROOT, "harness", name), os.path.join(HD, name))
    t = open(os.path.join(ROOT, "harness", "Cargo.toml")).read().replace('path = "/repo"', 'path = "%s"' % WT)
    open(os.path.join(HD, "Cargo.toml"), "w").write(t)
    if not os.path.exists(os.path.join(WT, "Cargo.lock")):
        shutil.copy("/repo/Cargo.lock", os.path.join(WT, "Cargo.lock"))   # not tracked by git
    shutil.copy("/repo/Cargo.lock", os.path.join(HD, "Cargo.lock"))


def passed_count(out):
    n = 0
    for m in re.finditer(r"test result: (\w+)\. (\d+) passed; (\d+) failed", out):
        n += int(m.group(2))
    failed = sum(int(m.group(3)) for m in re.finditer(r"test result: (\w+)\. (\d+) passed; (\d+) failed", out))
    return n, failed


def verify(d, checks, tier, keep):
    res = {"dir": d, "checks": {}}
    meta = json.load(open(os.path.join(d, "meta.json"))) if os.path.exists(os.path.join(d, "meta.json")) else {}
    res["property"] = meta.get("property")
    ensure_wt()
    patch = os.path.abspath(os.path.join(d, "patch.diff"))
    demo = os.path.join(d, "demo.rs")
    env = {"CARGO_TARGET_DIR": os.path.join(BASE, "target")}
    rc, out = sh(["git", "-C", WT, "apply", "--3way", patch])
    if rc != 0:
        rc, out = sh(["git", "-C", WT, "apply", patch])
    res["applies"] = rc == 0
    if rc != 0:
        res["apply_output"] = out[-500:]
        print(json.dumps(res))
        return res
    sh(["git", "-C", WT, "reset", "-q"])
    rc, out = sh("cargo test --offline --workspace --no-fail-fast 2>&1", cwd=WT, env=env)
    n, failed = passed_count(out)
    res["suite_with_patch"] = {"passed": n, "failed": failed, "rc": rc}
    if os.path.exists(demo):
        shutil.copy(demo, os.path.join(WT, "tests", "demo.rs"))
        rc, out = sh("cargo test --offline --test demo 2>&1", cwd=WT, env=env)
        n2, f2 = passed_count(out)
        res["demo_with_patch"] = {"passed": n2, "failed": f2, "rc": rc}
        sh(["git", "-C", WT, "checkout", "--", "."])
        rc, out = sh("cargo test --offline --test demo 2>&1", cwd=WT, env=env)
        n3, f3 = passed_count(out)
        res["demo_without_patch"] = {"passed": n3, "failed": f3, "rc": rc}
        os.remove(os.path.join(WT, "tests", "demo.rs"))
        sh(["git", "-C", WT, "apply", patch])
    # run the checks against the patched scratch copy
    cenv = {"VERIF_HARNESS_DIR": HD, "VERIF_WORK": os.path.join(BASE, "work"), "VERIF_EVID": os.path.join(BASE, "evid")}
    for c in checks:
        rc, out = sh([os.path.join(ROOT, "check"), c, tier], cwd=ROOT, env=cenv)
        viol = [l for l in out.splitlines() if l.startswith("VIOLATION")]
        res["checks"][c] = {"exit": rc, "violations": viol[:3], "tail": out.splitlines()[-3:] if rc not in (0, 1) else []}
    sh(["git", "-C", WT, "checkout", "--", "."])
    if not keep:
        cleanup()
    print(json.dumps(res))
    return res


def cleanup():
    sh(["git", "-C", "/repo", "worktree", "remove", "--force", WT])
    shutil.rmtree(BASE, ignore_errors=True)
    sh(["git", "-C", "/repo", "worktree", "prune"])


if __name__ == "__main__":
    if len(sys.argv) >= 2 and sys.argv[1] == "cleanup":
        cleanup()
        sys.exit(0)
    if len(sys.argv) < 3 or sys.argv[1] != "verify":
        print(__doc__)
        sys.exit(2)
    d = sys.argv[2]
    checks, tier, keep = [], "quick", False
    a = sys.argv[3:]
    while a:
        x = a.pop(0)
        if x == "--check":
            checks = a.pop(0).split(",")
        elif x == "--tier":
            tier = a.pop(0)
        elif x == "--keep":
            keep = True
    verify(d, checks, tier, keep)
