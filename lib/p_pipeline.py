"""C14 — filtering a compressed body (Pipeline.tla)."""
import os
from vlib import Check, tlc_mc, run_harness, tlc_validate, workdir, build_harness

REPLAY = {"C14": {"driver": "pipe", "trace_module": "Trace_Pipeline", "trace_cfg": "Trace_Pipeline.cfg", "boundary": ("pipe",)}}


def run(tier):
    c = Check("C14", tier)
    wd = workdir("C14")
    build_harness()
    c.add_mc(tlc_mc("MC_Pipeline", "MC_Pipeline_lag.cfg", wd, workers=12, coverage=False, timeout=3000))
    cfg = "MC_Pipeline_replayq.cfg" if tier == "quick" else "MC_Pipeline_replayt.cfg"
    cases = os.path.join(wd, "cases.ndjson")
    mc = tlc_mc("MC_Pipeline", cfg, wd, workers=8, cases_out=cases, coverage=False)
    c.add_mc(mc)
    trace = os.path.join(wd, "trace.ndjson")
    run_harness("pipe", cases, trace, timeout=6000)
    v = tlc_validate("Trace_Pipeline", "Trace_Pipeline.cfg", trace, wd, shards=8, boundary=("pipe",))
    c.add_validation(v, cases_path=cases, behaviours=mc["replays"], boundary=("pipe",))
    import json
    c.extra["compressed_stream_runs"] = sum(json.loads(l).get("runs", 0) for l in open(trace))
    c.assumptions = ["codec internals (flate2, brotli) are trusted; the model covers the composition (nondeterministic lag of both codec stages, "
                     "early break of do_filter, do_end cascade, gating)",
                     "producers: gzip/zlib levels 0,1,6,9, brotli qualities 0,5,9; cuts: every single cut (stride for long streams), 1 byte at a time, "
                     "7-byte stride, interleaved empty chunks"]
    return c.finish(explanation="Pipeline.tla wraps the body-filter chain in Decode / Encode stages modelled as transducers with nondeterministic lag; TLC explores "
                                "every arrival pattern and every lag on small documents and checks CodecTransparent (decoded output = plain-body result), GateClosed and "
                                "ScheduleExplains. For every (document, filter list, encoding) case printed by TLC the harness compresses the body with independent "
                                "producers at several levels, feeds the real chain with many cuts of the compressed stream, decodes the concatenated output with a "
                                "fresh independent decoder and records every run that differs from the plain-body result or is not a complete stream; TLC judges.",
                    exhaustive=False)
