"""C16 — the HTML tokenizer's span contract (Tokenizer.tla)."""
import json
import os
from vlib import Check, tlc_mc, run_harness, tlc_validate, workdir, build_harness, seed

REPLAY = {"C16": {"driver": "tok", "trace_module": "Trace_Tokenizer", "trace_cfg": "Trace_Tokenizer.cfg", "boundary": ("tok",)}}


def run(tier):
    c = Check("C16", tier)
    wd = workdir("C16")
    build_harness()
    # the abstract machine itself (all tokenisations of tiny inputs): TokenBound, Lossless
    c.add_mc(tlc_mc("MC_Tokenizer", "MC_Tokenizer_machine.cfg", wd, workers=8))
    cfgs = ["MC_Tokenizer_in4.cfg", "MC_Tokenizer_frag4.cfg"] if tier == "quick" else ["MC_Tokenizer_in5.cfg", "MC_Tokenizer_in6raw.cfg", "MC_Tokenizer_in6script.cfg", "MC_Tokenizer_frag5.cfg"]
    total = 0
    for cfg in cfgs:
        cases = os.path.join(wd, cfg + ".cases.ndjson")
        # (the input sets of the thorough tier have more than TLC's default bound of 1 000 000 elements)
        mc = tlc_mc("MC_Tokenizer", cfg, wd, workers=8, cases_out=cases, timeout=6000, xmx="12g", coverage=False, extra=["-maxSetSize", "4000000"])
        c.add_mc(mc)
        total += mc["replays"]
        trace = os.path.join(wd, cfg + ".trace.ndjson")
        run_harness("tok", cases, trace, timeout=6000)
        v = tlc_validate("Trace_Tokenizer", "Trace_Tokenizer.cfg", trace, wd, shards=12, boundary=("tok",), timeout=6000)
        c.add_validation(v, cases_path=cases, behaviours=mc["replays"], boundary=("tok",))
        os.remove(trace)
    # token TYPES, tag names and raw texts on the lexeme-structured documents of the body-filter specifications
    cases = os.path.join(wd, "docs.cases.ndjson")
    mc = tlc_mc("MC_Body", "MC_Body_docs.cfg", wd, workers=4, cases_out=cases, coverage=False)
    c.add_mc(mc)
    trace = os.path.join(wd, "docs.trace.ndjson")
    run_harness("toklex", cases, trace)
    v = tlc_validate("Trace_Body", "Trace_Body.cfg", trace, wd, shards=1, boundary=("lex",))
    c.add_validation(v, cases_path=cases, behaviours=mc["replays"], boundary=("lex",))
    c.extra["lexeme_documents_with_token_types_checked"] = mc["replays"]
    # seeded random longer inputs: markup alphabet and arbitrary bytes
    n = 2000 if tier == "quick" else 25000
    cases = os.path.join(wd, "random.cases.ndjson")
    with open(cases, "w") as f:
        for k in range(12):
            f.write(json.dumps({"random": n, "len": 40, "bytes": False, "salt": k}) + "\n")
            f.write(json.dumps({"random": n, "len": 40, "bytes": True, "salt": 100 + k}) + "\n")
            f.write(json.dumps({"random": n // 2, "len": 60, "bytes": False, "salt": 200 + k, "alphabet": "<>/!-scriptSCRIPT xmp=\"'"}) + "\n")
            f.write(json.dumps({"random": n, "frags": True, "salt": 400 + k}) + "\n")
            f.write(json.dumps({"random": n // 2, "len": 24, "salt": 300 + k, "chars": "<<>>/= \"'a-\u00e0\u00a0\u5143\u00e9\u00c5\U0001F600"}) + "\n")
    trace = os.path.join(wd, "random.trace.ndjson")
    run_harness("tok", cases, trace, timeout=6000)
    v = tlc_validate("Trace_Tokenizer", "Trace_Tokenizer.cfg", trace, wd, shards=12, boundary=("tok",), timeout=6000)
    c.add_validation(v, cases_path=cases, behaviours=v["events"], boundary=("tok",))
    c.extra["random_inputs"] = v["events"]
    c.assumptions = ["exhaustive inputs: all strings up to length 4 (quick) / 5 (thorough) over a 16-symbol markup alphabet, up to 6 over two "
                     "10/11-symbol alphabets that can spell raw-text elements, up to 4 (quick) / 5 (thorough) over a 15-symbol alphabet of FRAGMENTS (raw-text elements, partial end tags, "
                     "script-data escapes, characters of 2 / 3 / 4 bytes, NUL); random inputs seeded by VERIF_SEED",
                     "token TYPES, tag names and raw texts are judged against the specification's Scan on the 26 lexeme-structured documents of BodyCases.tla only"]
    return c.finish(explanation="Tokenizer.tla is the abstract machine of a lossless, total tokenizer (contiguity, progress, sticky error, "
                                "raw spans + remainder = input, at most one token per byte). TLC checks TokenBound/Lossless on the machine and enumerates "
                                "the inputs; the harness runs the real tokenizer (public API, helper thread with a timeout so a hang is data) and records "
                                "per call type, raw span, unread remainder and accessor outcomes; TLC validates every recorded call sequence against the "
                                "contract (classes: span_not_contiguous, span_not_lossless, no_progress, error_not_sticky, too_many_tokens, "
                                "accessor_failed, next_failed, hang, panic).", exhaustive=True)
