"""C18 — the C surface: ownership and the allocator contract (Ffi.tla)."""
import json
import os
from vlib import Check, tlc_mc, run_harness, tlc_validate, workdir, build_harness

REPLAY = {"C18": {"driver": "ffi", "trace_module": "Trace_Ffi", "trace_cfg": "Trace_Ffi.cfg", "boundary": ("begin",)}}


def run(tier):
    c = Check("C18", tier)
    wd = workdir("C18")
    build_harness()
    n_alloc = 0
    n_trans = 0
    # the whole surface to a small depth (one sequence per distinct state), then the life of one body filter to depth 7, every call sequence
    for cfg in ["MC_Ffi_quick.cfg" if tier == "quick" else "MC_Ffi_thorough.cfg", "MC_Ffi_filter.cfg"]:
        cases = os.path.join(wd, cfg + ".cases.ndjson")
        mc = tlc_mc("MC_Ffi", cfg, wd, workers=12, cases_out=cases, coverage=False, timeout=6000, xmx="12g")
        c.add_mc(mc)
        trace = os.path.join(wd, "trace.ndjson")
        run_harness("ffi", cases, trace, timeout=6000)
        v = tlc_validate("Trace_Ffi", "Trace_Ffi.cfg", trace, wd, shards=12, boundary=("begin",), timeout=6000)
        c.add_validation(v, cases_path=cases, behaviours=mc["replays"], boundary=("begin",), cid_key="cid")
        with open(trace) as f:
            for line in f:
                e = json.loads(line)
                n_alloc += len(e.get("allocs", []))
                n_trans += e.get("transient", 0)
        os.remove(trace)
    c.extra["allocator_events_audited"] = n_alloc
    c.extra["transient_pairs_elided_by_recorder"] = n_trans
    c.assumptions = ["the harness is the C caller: it declares the extern \"C\" symbols of redirectionio.h itself and links the rlib; caller-side malloc/free are Box / CString with exact sizes",
                     "alloc/dealloc pairs inside one call with the identical layout are elided by the recorder (a mismatching pair is never elided)",
                     "reads through dangling pointers are not observable in an event trace; the specification forbids the calls that would cause them"]
    return c.finish(explanation="Ffi.tla gives every entry point its ownership transfer signature (creates / consumes, NULL variants, three release disciplines) and TLC enumerates "
                                "all call sequences up to the bound over payload classes (empty, 1 byte, HTML, 100 kB), one sequence per distinct (owned objects, last call). The harness "
                                "executes each through the real extern \"C\" symbols in a child process (an abort is data) under a recording global allocator, releases what is left "
                                "at the end, and records per call the allocator events and the returned content next to the native API's answer. TLC audits every allocator event "
                                "(live pointer, exact layout, no double free), Quiesce (nothing allocated by the sequence survives the release), the ownership ledger, the NULL "
                                "contracts and the content relations.", exhaustive=True)
