"""C13 — header operations (HeaderOps.tla)."""
import os
from vlib import Check, tlc_mc, run_harness, tlc_validate, workdir, require_actions, build_harness


REPLAY = {"C13": {"driver": "c13", "trace_module": "Trace_HeaderOps", "trace_cfg": "Trace_HeaderOps.cfg"}}


def run(tier):
    c = Check("C13", tier)
    wd = workdir("C13")
    build_harness()
    cases = os.path.join(wd, "cases.ndjson")
    cfgs = ["MC_HeaderOps_quick.cfg", "MC_HeaderOps_quickH3.cfg"] if tier == "quick" else ["MC_HeaderOps_thoroughA.cfg", "MC_HeaderOps_thoroughB.cfg"]
    n = 0
    for cfg in cfgs:
        mc = tlc_mc("MC_HeaderOps", cfg, wd, workers=8, cases_out=cases)
        require_actions(mc, ["Grow", "ApplyFilter"])
        c.add_mc(mc)
        n += mc["replays"]
    trace = os.path.join(wd, "trace.ndjson")
    run_harness("c13", cases, trace)
    v = tlc_validate("Trace_HeaderOps", "Trace_HeaderOps.cfg", trace, wd, shards=8)
    c.add_validation(v, cases_path=cases, behaviours=n)
    c.assumptions = ["header names range over {x-a, X-A, x-b}; values over {'', 1, 2}; the case relation is the table Lower",
                     "names of rewritten entries are compared case-insensitively (the property is silent on their spelling)"]
    return c.finish(
        explanation="TLC enumerates every (initial header list, filter sequence) within MaxH/MaxF, checks the code-shaped "
                    "operations against the declarative ones (I => P) in every state, prints each maximal behaviour; the "
                    "harness applies it through FilterHeaderAction::filter (step by step) and Action::filter_headers (as a "
                    "whole); Trace_HeaderOps re-executes the log and judges every observed list with OpPost/HeaderOpsFold.",
        exhaustive=True)
