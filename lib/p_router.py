"""C01, C02, C17 (+ router-level parts of C12 and C06) — Router.tla / RouterMachine.tla."""
import os
from vlib import Check, tlc_mc, run_harness, tlc_validate, workdir, require_actions, build_harness

MATCH = {"match_missing", "match_spurious", "match_duplicate", "panic", "trace_rejected", "handles"}
CLASSES = {
    "C01": MATCH,
    "C02": MATCH | {"rebuild_differs", "len", "get_by_id", "remove_return"},
    "C17": {"trace_routes_differ", "trace_final_priority", "trace_action_last_differs", "panic", "trace_rejected"},
    "C12": {"cache_changes_match", "cache_changes_capture", "cache_changes_trace", "cache_changes_remove", "panic", "trace_rejected"},
    "C06": {"request_json_roundtrip", "panic", "trace_rejected"},
    "C11": {"rebuild_differs", "panic", "trace_rejected"},
}
# (cfg, simulate, depth)
RUNS = {
    ("C01", "quick"): [("MC_Router_c01quick.cfg", None, None), ("MC_Router_c01orders.cfg", None, None)],
    ("C01", "thorough"): [("MC_Router_c01thorough.cfg", None, None), ("MC_Router_c01three.cfg", None, None), ("MC_Router_c01orders.cfg", None, None)],
    ("C02", "quick"): [("MC_Router_c02quick.cfg", None, None), ("MC_Router_c02paths.cfg", None, None), ("MC_Router_c02paths2.cfg", None, None), ("MC_Router_c02sim.cfg", 30, 11)],
    ("C02", "thorough"): [("MC_Router_c02quick.cfg", None, None), ("MC_Router_c02paths.cfg", None, None), ("MC_Router_c02paths2.cfg", None, None), ("MC_Router_c02thorough.cfg", None, None), ("MC_Router_c02sim.cfg", 400, 11)],
    ("C17", "quick"): [("MC_Router_c01quick.cfg", None, None), ("MC_Router_c02quick.cfg", None, None)],
    ("C17", "thorough"): [("MC_Router_c01thorough.cfg", None, None), ("MC_Router_c02thorough.cfg", None, None), ("MC_Router_c02sim.cfg", 200, 11)],
    ("C12", "quick"): [("MC_Router_c02quick.cfg", None, None), ("MC_Router_c02sim.cfg", 20, 11)],
    ("C12", "thorough"): [("MC_Router_c02thorough.cfg", None, None), ("MC_Router_c02sim.cfg", 200, 11), ("MC_Router_c01three.cfg", None, None)],
    ("C06", "quick"): [("MC_Router_c01quick.cfg", None, None)],
    ("C11", "quick"): [("MC_Router_c02quick.cfg", None, None), ("MC_Router_c01orders.cfg", None, None)],
    ("C11", "thorough"): [("MC_Router_c02thorough.cfg", None, None), ("MC_Router_c01orders.cfg", None, None), ("MC_Router_c02sim.cfg", 200, 11)],
    ("C06", "thorough"): [("MC_Router_c01thorough.cfg", None, None)],
}
REPLAY = {p: {"driver": "router", "trace_module": "Trace_Router", "trace_cfg": "Trace_Router.cfg"} for p in ("C01", "C02", "C17")}


def router_part(c, wd, prop, tier):
    """Run the router pipeline for `prop` and fold the results into Check c."""
    for (cfg, sim, depth) in RUNS[(prop, tier)]:
        cases = os.path.join(wd, cfg + ".cases.ndjson")
        mc = tlc_mc("MC_Router", cfg, wd, workers=4 if sim else 12, cases_out=cases, timeout=6000, xmx="12g", simulate=sim, depth=depth)
        if not sim:
            require_actions(mc, ["Insert"])
            if "c02" in cfg:
                require_actions(mc, ["RemoveRule", "BatchRemove", "ChangeSet", "Cache"] + ([] if "paths" in cfg else ["Fork"]))
        c.add_mc(mc)
        trace = os.path.join(wd, cfg + ".trace.ndjson")
        run_harness("router", cases, trace, universe=mc["universe"])
        # keep the universe next to the cases so that a replay can find it
        v = tlc_validate("Trace_Router", "Trace_Router.cfg", trace, wd, shards=12)
        c.add_validation(v, cases_path=cases, behaviours=mc["replays"], classes=CLASSES[prop], universe=mc["universe"])
        os.remove(trace)


EXPL = {
    "C01": "TLC enumerates rule sets (<=2 rules of a pool of single-trigger variants of every layer with boundary atoms plus multi-layer "
           "combinations; <=3 on a reduced pool in the thorough tier) x router configurations, and checks in every state that the "
           "bucket-path index (layer I) answers exactly Sat (layer P) for every probe request; probes are centred on a witness request "
           "of each rule and varied through all atoms of every constrained dimension. Every set is replayed on a real Router<Rule> "
           "built from Rule JSON; after each insert every probe is matched and TLC judges the recorded id bag against Sat.",
    "C02": "RouterMachine.tla has insert / remove / batch_remove / apply_change_set / clone-then-change-set / cache as actions over two "
           "router handles; TLC explores all histories up to the bound (one history per distinct abstract state is replayed) and "
           "random long histories (-simulate, seeded). After every operation the harness probes every live handle and a router "
           "rebuilt from scratch; TLC checks answers = Sat over the model's live set, = rebuilt router, len, get_route_by_id, "
           "remove's return value, and that the other handle is untouched.",
    "C17": "On every (router state, probe) of the C01 and C02 universes the harness records the id set found in the explain trace, "
           "the priority of the traced final route and of get_route; TLC checks trace set = match set (itself judged against Sat) "
           "and equal priorities. The per-step action trace is checked in the analysis traces (C19).",
}


def run_prop(prop, tier):
    c = Check(prop, tier)
    wd = workdir(prop)
    build_harness()
    router_part(c, wd, prop, tier)
    if prop == "C17":
        import p_analysis
        p_analysis.analysis_part(c, wd, "C17", tier)
    c.assumptions = ["trigger atoms and their meaning are the tables of Router.tla (case folding, CIDR membership, header value relations, "
                     "instants); probe requests are the witness-centred slices of RouterMachine.tla",
                     "rule ids are unique among live rules (precondition of the properties)"]
    return c.finish(explanation=EXPL[prop], exhaustive=(tier == "thorough"))


def run_c01(tier):
    return run_prop("C01", tier)


def run_c02(tier):
    return run_prop("C02", tier)


def run_c17(tier):
    return run_prop("C17", tier)
