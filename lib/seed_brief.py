#!/usr/bin/env python3
"""Brief for a fresh sub-agent that seeds a property-breaking change (see DESIGN section 11).

  seed_brief.py <property-id> <worktree-dir> [n-changes]

Prints the text handed to the agent: the property (from properties.jsonl), the scratch worktree, the rules of the
exercise and the one-line summaries of the earlier seeded changes of that property ("produce different ones").
Nothing about /verif's specifications or checks is included."""
import glob
import json
import os
import sys

ROOT = os.path.dirname(os.path.dirname(os.path.abspath(__file__)))


def main():
    pid, wt = sys.argv[1], sys.argv[2]
    n = int(sys.argv[3]) if len(sys.argv) > 3 else 3
    prop = None
    for l in open(os.path.join(ROOT, "properties.jsonl")):
        p = json.loads(l)
        if p["id"] == pid:
            prop = p
    earlier = []
    for m in sorted(glob.glob(os.path.join(ROOT, "seeded", pid + "-*", "meta.json"))):
        j = json.load(open(m))
        earlier.append("- " + j.get("summary", "")[:400])
    text = f"""You are helping to evaluate a verification framework for the Rust library redirectionio/libredirectionio.
Your job is to play the adversary: write {n} DIFFERENT small changes to the library, each of which BREAKS the semantic
property below while the crate still COMPILES and its EXISTING TEST SUITE STILL PASSES.

Your own scratch git worktree of the repository is at {wt} (work ONLY there; never touch /repo or /verif, and do not
read anything under /verif). Build offline: `cd {wt} && CARGO_NET_OFFLINE=true cargo test --offline` (copy
/repo/Cargo.lock into the worktree first if Cargo.lock is missing). The full suite has 549 tests and takes a few minutes.

THE PROPERTY ({pid}): {prop['title']}

Statement: {prop['statement']}

Quantifier: {prop['quantifier']['text']}

Code anchors: {json.dumps(prop['anchors'].get('files', []))}
Mechanisms: {json.dumps(prop['anchors'].get('mechanism', []))}

WHAT MAKES A GOOD CHANGE
* It looks like a plausible refactoring, optimisation or "simplification" a maintainer could make by mistake, not sabotage;
  no special-casing of magic strings, no dead code that only exists to misbehave.
* It needs something SPECIFIC to manifest: a multi-step sequence of operations, an unusual input, a particular
  boundary, a particular state reached only through a history, or two cooperating sites that each look fine alone.
  Changes that ordinary use would expose at once (every request fails, etc.) are useless.
* It compiles without new warnings being errors, and `cargo test --offline` still reports 549 passed, 0 failed.
* Each change is independent of the others (each is a diff against the unmodified worktree HEAD).
* You may touch any file of the library the property depends on (not only the anchors), but not tests, fixtures or build files.

These changes were already produced in earlier rounds for this property; produce DIFFERENT ones, in different functions
or exploiting different mechanisms:
{chr(10).join(earlier) if earlier else '- (none)'}

DELIVERABLE for each change k = 1..{n}, in the directory {wt}/../out/{pid}-k/ (create it):
* patch.diff  — `git diff` of the change against the worktree HEAD (only src/ files);
* demo.rs     — a self-contained Rust integration test file (it will be copied to tests/demo.rs of the crate and run with
                `cargo test --offline --test demo`) with one or more #[test] functions that PASS on the unmodified
                tree and FAIL with the change applied. Use only the crate's public API (crate name `redirectionio`) and
                serde_json; look at the existing tests/ and src/**/tests for how rules, routers, requests and actions are built from JSON.
* meta.json   — {{"property": "{pid}", "summary": "<what the change does, 1-3 sentences>", "needs": "<what specific
                input/sequence/state is needed for it to manifest>", "files": ["src/..."]}}

PROCEDURE for each change: make the edit; run the full test suite (must stay at 549 passed); write demo.rs and check that it
fails with the change and passes after `git stash` / `git checkout -- src`; save the three files; then `git checkout -- .`
and remove tests/demo.rs before starting the next change. At the end leave the worktree clean (no modified tracked
files, no tests/demo.rs) and delete the worktree's target/ directory to free disk space.

Report briefly: for each change, one paragraph on what it does and what is needed to expose it, plus the test counts you observed.
If you could not get a change to satisfy all constraints, say so rather than delivering a broken one.
"""
    print(text)


main()
