#!/bin/bash
# sweep: run the given tier of every check (or of the listed ones) and summarise; used with `vp run`
tier=${1:-thorough}; shift
props=${@:-C13 C05 C06 C11 C08 C12 C01 C02 C17 C03 C04 C15 C16 C14 C09 C10 C18 C19 C07}
./setup.sh >/dev/null 2>&1
for p in $props; do
  s=$(date +%s)
  out=$(./check $p $tier 2>&1); rc=$?
  e=$(date +%s)
  echo "== $p $tier rc=$rc $((e-s))s"
  echo "$out" | grep -E "VIOLATION|KNOWN-FINDING|TOOL-ERROR|held on everything" | cut -c1-220
done
