"""C19 — project-level analyses and the redirect-chain analysis (Analysis.tla + RouterMachine histories)."""
import os, json
from vlib import Check, tlc_mc, run_harness, tlc_validate, workdir, build_harness

CLASSES = {
    "C19": {"loop_hop_limit_exceeded", "loop_loop_iff_repeat", "loop_repeat_not_reported", "loop_chain_not_following_rules", "loop_stops_without_reason",
            "project_differs_from_standalone", "depends_on_rule_order", "response_differs_from_pipeline", "project_changed_existing_router", "unit_attribution_wrong", "applied_rules_differ_from_pipeline", "loop_backend_triggered_chain_differs", "test_examples_disagree_with_chain", "panic", "trace_rejected"},
    "C17": {"trace_action_last_differs", "panic", "trace_rejected"},
}
REPLAY = {"C19": {"driver": "analysis", "trace_module": "Trace_Analysis", "trace_cfg": "Trace_Analysis.cfg", "boundary": ("loop", "reset")}}


def analysis_part(c, wd, prop, tier):
    runs = [("MC_Router", "MC_Router_c19quick.cfg" if tier == "quick" else "MC_Router_c19thorough.cfg"), ("MC_Router", "MC_Router_c19ips.cfg")]
    if prop == "C19":
        runs.insert(0, ("MC_Analysis", "MC_Analysis_quick.cfg" if tier == "quick" else "MC_Analysis_thorough.cfg"))
        runs.insert(1, ("MC_Analysis", "MC_Analysis_hosts.cfg"))
    for (mod, cfg) in runs:
        cases = os.path.join(wd, cfg + ".cases.ndjson")
        mc = tlc_mc(mod, cfg, wd, workers=12, cases_out=cases, coverage=False, timeout=6000, xmx="12g")
        c.add_mc(mc)
        trace = os.path.join(wd, cfg + ".trace.ndjson")
        run_harness("analysis", cases, trace, universe=mc["universe"], timeout=6000)
        v = tlc_validate("Trace_Analysis", "Trace_Analysis.cfg", trace, wd, shards=8, boundary=("loop", "reset"), timeout=6000)
        c.add_validation(v, cases_path=cases, behaviours=mc["replays"], boundary=("loop", "reset"), classes=CLASSES[prop], universe=mc["universe"])


def units_part(c, wd):
    """UnitTrace.tla: attribution of effects to units (the applied/seen unit ids the analyses report)"""
    cases = os.path.join(wd, "units.cases.ndjson")
    mc = tlc_mc("MC_UnitTrace", "MC_UnitTrace.cfg", wd, workers=4, cases_out=cases, coverage=False)
    c.add_mc(mc)
    with open(cases, "a") as f:
        for case in mc["blobs"].get("FILTERCASES", []):
            f.write(json.dumps(case) + "\n")
            mc["replays"] += 1
    trace = os.path.join(wd, "units.trace.ndjson")
    run_harness("units", cases, trace)
    v = tlc_validate("Trace_UnitTrace", "Trace_UnitTrace.cfg", trace, wd, shards=4, boundary=("units",))
    c.add_validation(v, cases_path=cases, behaviours=mc["replays"], boundary=("units",), classes=CLASSES["C19"])


def run(tier):
    c = Check("C19", tier)
    wd = workdir("C19")
    build_harness()
    analysis_part(c, wd, "C19", tier)
    units_part(c, wd)
    c.assumptions = ["redirect graphs over 2 (quick) / 3 (thorough) project URLs + an external and a host-less target, codes 200/301/302/307/308, hop limits 0..4, both methods, with and without project domains",
                     "project analyses: existing router = inserts of the history, change-set = the fork of RouterMachine (added / updated / deleted), examples = the witness-centred probes; "
                     "outputs compared through hashes of their projection on the observables the property lists (unit_ids_seen as a set, match traces through their route sets)"]
    return c.finish(explanation="Analysis.tla is the redirect-chain machine (layer I: the loop as coded; layer P: hop bound, Loop <=> the last hop repeats an earlier (url, method), hops follow the "
                                "rules, the chain stops only for a reason); TLC explores every graph x start x method x limit and the harness replays each graph as real rules through the explain "
                                "analysis; TLC judges the recorded hops/error against layer P (zero drift against layer I). For project-vs-standalone TLC enumerates RouterMachine histories "
                                "inserts* ; fork(change-set); at the fork the harness runs explain / impact / test-examples / unit-ids from the existing router + change-set and from scratch on "
                                "the resulting rule list in two orders, and drives the live pipeline by hand; TLC checks the equalities.", exhaustive=True)
