#!/usr/bin/env python3
"""Regenerates /verif/MANIFEST.json from the table below (single source of truth)."""
import json
import os

ROOT = os.path.dirname(os.path.dirname(os.path.abspath(__file__)))
TECH = "explicit TLA+ specification model-checked with TLC; TLC-generated behaviours replayed into the real library; recorded trace validated by TLC against the specification"

CHECKS = {
    "C01": dict(
        text="Router.tla gives the meaning of every trigger on concrete atoms (Sat = conjunction of scheme / host / ip / method / header / date-time-weekday / path predicates + the any-host policy scoped per scheme) and a code-shaped bucket-path index; TLC checks index = Sat for every rule set of the bound (<=2 rules of a ~70-rule pool of single-trigger variants with boundary atoms and multi-layer combinations x 16 configurations in the thorough tier; a covering sub-pool x 4 configurations in the quick tier; <=3 rules on the sub-pool) and every witness-centred probe request. Every set is replayed on a real Router<Rule> built from Rule JSON and every probe's id bag is judged by TLC against Sat (missing / spurious / duplicate).",
        note="Bounded to the atoms of Router.tla (3 schemes, 7 hosts incl. case variants and a dynamic host, 7 addresses around two nested CIDRs + IPv6, 4 methods, 14 header lists, 9 instants, 7 paths) and to <=3 rules. Query-string normalisation is C09's business (paths here carry no query). Three genuine defects found here were repaired (duplicate through overlapping ip ranges, header regex under ignore_header_case; see known_findings.json).",
        ref="DESIGN.md section 6, C01"),
    "C02": dict(
        text="RouterMachine.tla: insert / remove / batch_remove / apply_change_set / clone-then-change-set (update_existing_router) / cache on two router handles. TLC explores all histories up to the bound (every operation kind into every reachable abstract state) with IncrementalEqualsRebuild, UniqueIds and clone Isolation, plus seeded random long histories (-simulate). Each history is replayed on real routers; after every operation every live handle is probed and compared by TLC with Sat over the model's live set, with a router rebuilt from scratch (real vs real), len, get_route_by_id and remove's return value.",
        note="Bounded: pool of 5 (quick) / 8 (thorough) rules incl. two versions per id and host/path patterns that force tree splits and collapses, <=3/4 operations exhaustively, 10-operation random histories. One genuine defect repaired (remove returned None for dynamic-host rules).",
        ref="DESIGN.md section 6, C02"),
    "C03": dict(
        text="BodyFilter.tla models the streaming chain code-shaped (per chunk a fresh context-free tokenizer run over held bytes + chunk, the hold rules for partial tags / lone '<' / text containing '<', truncated markup declarations, raw-text context, the enter-leave-position machine of the three visitors, element buffers, selector-driven re-tokenisation, text stages, do_filter's early break, do_end, end()). TLC explores every chunk schedule (<=2 chunks quick, <=3 thorough, empty chunks included) of every (document, filter list) of the case set and checks ChunkInvariant. Every behaviour is replayed on the real FilterBodyAction whole and chunked, plus per case every single byte cut, one byte at a time and interleaved empty chunks; TLC judges real chunked = real whole. The model predicts the real bytes exactly on all 148 580 thorough behaviours (zero drift), which is what allows a deviation to be accepted as a known finding only when the model reproduces the observed bytes.",
        note="Bounded to the 22 documents x 20 filter lists of BodyCases.tla (well-formed trees, attributes containing '>', void / self-closing / upper-case tags, entities, multi-byte characters, comments and raw-text elements with embedded markup, bare '<', stray / omitted end tags, truncated documents). Known findings D1/D2 (cut inside a markup declaration / raw-text element) are genuine and not repaired; D3 (cut inside a multi-byte character) was repaired.",
        ref="DESIGN.md section 6, C03"),
    "C04": dict(
        text="On the same behaviours TLC checks Conservation (insert-only lists: output minus values = document, unit by unit, no loss / duplication / reordering), PassThroughWhenInert and RunChunkedAgrees on the model; on the recorded real outputs (whole and chunked, malformed / truncated / invalid-UTF-8 documents included) that stripping the values gives back the document bytes, that inert lists pass through, and that outputs of replace lists are exactly the model's.",
        note="For replace lists the verdict goes through the code-shaped model (real = model, and the model's outputs are whole-span substitutions by construction of the visitors). Error path: one known finding (held bytes lost when an invalid byte arrives in a later chunk); the end() ordering defect was repaired.",
        ref="DESIGN.md section 6, C04"),
    "C05": dict(
        text="TLC checks Action.tla exhaustively over rule pools (<=2 rules x status/conditions/exclusion/log/reset/stop, filters/target/sampling x override; <=3 rules on a reduced pool in the thorough tier): the code-shaped fold, merge and queries imply the declarative window semantics in every state. Every enumerated behaviour (rule set x override x query script) is replayed through real Rule JSON -> Router -> Action::from_routes_rule -> get_status_code / filter_headers / create_filter_body / should_log_request and the recorded answers and applied-rule sets are judged by TLC against the declarative layer.",
        note="Bounded to the pools and scripts of MC_Action.tla; response codes 0/200/404/500; applied-rule lists compared as sets; sampling only at rates none/0/100 (as the property states). Trusted: TLC, serde_json recorder.",
        ref="DESIGN.md section 6, C05"),
    "C06": dict(
        text="Action.tla models the agent->proxy hand-off as a stuttering step; TLC enumerates behaviours with the hand-off at different script positions; the harness serialises and restores the real Action there (rich shapes: unit ids, target hashes, text and HTML body filters) while a second copy never leaves memory; TLC checks decode success, equal re-serialisation (hash), and equality of every later observation (status, headers, body output, log decision, applied ids) with the in-memory copy and with the specification. Request JSON round trip is checked in the router traces.",
        note="Serialisations compared through a 64-bit FNV hash; JSON field fidelity is observed through behaviour and re-serialisation only. Bounded to the generated action shapes.",
        ref="DESIGN.md section 6, C06"),
    "C07": dict(
        text="Totality.tla: every public entry point (the whole rule -> router -> action -> header/body filter -> log pipeline, the four analyses in project and standalone form, Log::from_proxy, the tokenizer and the body-filter chain) is an action enabled for every argument of finite hostile value classes (transformer options against multi-byte captures, invalid / unbalanced / huge marker regexes, unknown header kinds, garbage ip / cidr / datetime / time / weekday strings, garbage example fields, max_hops 0/1/255, relative / host-less / unparsable redirect targets with and without project domains, empty element trees, unknown actions, invalid selectors, response codes 0 and 65535, empty and 5000-entry header lists, bodies: empty, lone '<', truncated, invalid UTF-8, 1 MiB script, 10 000 nested elements, garbage under every content-encoding) with the temporal property [](called => <>returned). TLC enumerates every single-dimension call and listed pairs; each is concretised and executed on the real library in a child process with a wall-clock bound; TLC validates that every call is followed by return, never panic / abort / timeout.",
        note="Totality over the enumerated classes and over everything the other 18 checks drive (a panic is an event class in every trace specification); byte-level mutation (fuzzing) is outside this technique. C entry points with NULL patterns are covered by C18. Four panics found were repaired (slice from>to, slice inside a multi-byte character, invalid example address, host-less redirect target).",
        ref="DESIGN.md section 6, C07"),
    "C08": dict(
        text="TLC explores every history (<=3 ops quick, <=4 thorough) of insert / remove / retain / cache over pools of 8-16 token patterns (escaped literals, marker groups incl. nested groups, escaped parentheses, parentheses inside character classes, empty-matching groups), case-sensitive and case-insensitive, checking on the code-shaped tree that find equals the linear scan for every probe string, len, get, replace-on-same-key, the prefix invariant and remove's return value; PrefixChar.tla shows by enumeration (all pairs of token sequences) that the character-level prefix function cuts exactly at the longest common token prefix. One history per distinct reachable tree is replayed on a real RegexTreeMap; after every operation len/find/get and the structural snapshot (hook H1) are validated by TLC against the linear scan (verdict) and the model's exact tree shape (drift); all token-sequence pairs are replayed into the real prefix function (hook H2).",
        note="Bounded to the token alphabet and pools of MC_RadixTree.tla; ids unique across patterns; the model's regex semantics is re-checked against the regex crate on the probe universe at each run (mismatch = tool error). Two genuine defects found by TLC in the model and confirmed on the code were repaired (fix: commits, see known_findings.json).",
        ref="DESIGN.md section 6, C08"),
    "C09": dict(
        text="Url.tla transcribes the rule-side and the request-side normalisation token by token (sanitise, form-decode, BTreeMap sort with last-value-wins, the two re-encoding passes, marketing skip, lower-casing) and defines Canonical(u, cfg) = sanitised path + decoded parameter map. TLC checks, for every configuration and every rule URL of the universe against EVERY request URL, that the code-shaped match equals the canonical-form match outside two named deviation classes, and exactly when marketing parameters are ignored and matching is case sensitive. The harness builds the real rule + router per (configuration, rule URL), matches a request for every URL of the universe, records the normalised strings, the Location header (forwarding of skipped marketing parameters) and rebuild idempotence; TLC judges every pair (zero drift: the model predicts every normalised string).",
        note="Universe: 104 URLs (quick) / ~700 (thorough) x 8 configurations, i.e. every pair is probed, so self-match, discrimination, permutation, marketing, case and re-encoding invariance are all covered as instances. Two genuine defects are known findings (request side not normalised when marketing-ignore is off; sort-before-case-fold), the second one found by TLC in the model.",
        ref="DESIGN.md section 6, C09"),
    "C10": dict(
        text="Marker.tla: templates as token sequences (literals / references; names a, ab, abc prefixes of one another; markers in path, host and a header pattern at once), typed expressions (integer, lowercase, enum, date, uuid, anything) with accepted values and near misses, AllAccepted, Substitute with transformer chains whose meaning is MarkerTables.tla (generated by an independent implementation). TLC enumerates rules x instantiations x chains; the harness runs each through the real Router and Action (request header name in the rule's spelling and lower-cased) and TLC judges match <=> all accepted and Location / header-filter value / body-filter output = Substitute(...).",
        note="5 000 + 484 + 22 cases. Domain restrictions stated in the evidence assumptions (one marker per pattern position, targets reference only captured markers, case conversions on word-structured values). Two genuine defects repaired (header name case in capture; slice panics).",
        ref="DESIGN.md section 6, C10"),
    "C11": dict(
        text="TLC enumerates rule sets of <=3 (thorough: 4) rules with every rank-tie pattern and conflicting effects; the specification's order is (rank desc, id desc). For each set the harness folds every permutation of the real match vector and matches on routers built in every insertion order; TLC checks that all serialised actions are identical and that the recorded filter order equals the specification's.",
        note="Sampling disabled as the property states. Bounded to <=4 matched rules; serialisations compared by hash.",
        ref="DESIGN.md section 6, C11"),
    "C12": dict(
        text="RadixTree.tla has cache(limit, level) as an action that only sets compiled flags under the level-by-level budget algorithm; TLC interleaves it with all updates (limits 0-3, levels 0-2 and none) and checks CacheTransparent/CacheBudget. On the real code a twin tree that is never cached receives the same history; TLC compares find / len / remove results of the two after every operation (real vs real) and, as drift, compiled flags and the returned budget with the model.",
        note="Tree level (RegexTreeMap) in this check; router-level cache (Router::cache, Route::compile, captures, traces) is covered by the router traces. Bounded as C08.",
        ref="DESIGN.md section 6, C12"),
    "C14": dict(
        text="Pipeline.tla: [Decode] stages [Encode] with both codec stages as transducers with nondeterministic lag (any prefix of what was received may surface now, the rest at end()), do_filter's early break when a stage surfaces nothing, the do_end cascade, and the gate (unsupported encoding => empty chain => untouched; no filter => no codec stage). TLC explores every arrival pattern x every lag on small documents (CodecTransparent, GateClosed, ScheduleExplains). For every (document, filters, encoding) case printed by TLC the harness compresses the body with independent producers (gzip/zlib levels 0,1,6,9; brotli 0,5,9), feeds the real chain with every single cut of the compressed stream, one byte at a time, strides and empty chunks, decodes the output with a fresh independent decoder and TLC judges decoded = plain-body result, stream complete, unsupported encodings untouched.",
        note="flate2 / brotli internals are a trusted base. Chunk dependence of C03 (D1/D2) can resurface through the decoder's own chunking on documents with markup inside comments / raw text; such documents are classified with the same classes. 47 640 compressed-stream runs in the quick tier.",
        ref="DESIGN.md section 6, C14"),
    "C15": dict(
        text="RefEdit.tla: declarative edit of a well-formed lexeme sequence (targets through the ancestor chain, value before the end tag / after the start tag / instead of the whole span for every sibling occurrence incl. void and self-closing, selector rule, composition left to right). TLC checks RunWhole = RefOut on every case inside the domain of the property; the real single-chunk output is compared by TLC with the rendering of RefOut.",
        note="Domain exactly as the property states (each path element once and child of the previous, append/prepend targets unique and non-void, replace targets possibly repeated siblings). Bounded to BodyCases.tla.",
        ref="DESIGN.md section 6, C15"),
    "C16": dict(
        text="Tokenizer.tla states the span contract of next() as an abstract machine (contiguity, progress, sticky Error, raw spans + unread remainder = input after every call, at most one token per input byte). TLC checks the machine and enumerates ALL inputs up to length 4 (quick) / 5 (thorough) over a 16-symbol markup alphabet (and up to 6 over alphabets that spell raw-text elements); the harness tokenises each with the real tokenizer through the public API only, in a helper thread with a timeout, recording type, raw span, remainder and accessor outcomes per call (+ two calls after the first Error); TLC validates each recorded call sequence against the contract. Seeded random longer inputs over markup alphabets and arbitrary bytes go through the same validation.",
        note="Totality/losslessness only: token types, names and attribute values are judged only on the lexeme-structured documents of C03/C15 (zero drift there). Bounded exhaustive lengths; random beyond.",
        ref="DESIGN.md section 6, C16"),
    "C18": dict(
        text="Ffi.tla: objects handed to C (request, action, body filter, buffer, header list, string, trusted proxies), the ownership transfer signature of every entry point (creates / consumes, the NULL variants their contracts allow, three release disciplines: library drop, release by the caller with the exact inverse of the allocation, never released) as actions; TLC enumerates all call sequences up to 4 (quick) / 6 (thorough) calls over payload classes. The harness is the C caller: it executes each sequence through the real extern \"C\" symbols in a child process under a recording #[global_allocator], then releases everything still owned. TLC audits on the recorded trace every allocator event (deallocation of a live pointer with exactly its allocation layout, no double free), Quiesce (no allocation of the sequence survives), the ownership ledger, NULL contracts and content relations with the native API (buffer bytes, header multiset, status, log decision, serialisations).",
        note="78 000 sequences / 470 000 events in the quick tier. Use-after-free reads are not observable in an event trace. Two genuine defects repaired (Buffer::duplicate panic = abort; buffers freed with size != allocation).",
        ref="DESIGN.md section 6, C18"),
    "C19": dict(
        text="Analysis.tla: the redirect-chain machine (layer I the loop as coded: request, status, Location joined to the current URL, 301/302 -> GET, loop test, domain cut-off, hop limit; layer P: |hops| <= max_hops + 1, Loop <=> the last hop repeats an earlier (url, method), hops follow the rules, the chain stops only for a reason). TLC explores every redirect graph x start x method x hop limit x domain setting; each is replayed as real rules through the explain analysis and TLC judges the recorded chain (zero drift against layer I). Project vs standalone: TLC enumerates RouterMachine histories inserts* ; fork(change-set) (added / updated / deleted); at the fork the harness runs explain, impact, test-examples and unit-ids from the existing router + change-set and from scratch on the resulting rule list in two orders, and drives the live pipeline by hand; TLC checks project = standalone, order independence, response = pipeline, existing router untouched.",
        note="Outputs are compared through hashes of their projection on the observables the property lists. Two panics found here were repaired (invalid example address, host-less redirect target).",
        ref="DESIGN.md section 6, C19"),
    "C17": dict(
        text="For every (router state, probe request) of the C01 and C02 universes (so also after removals, change-sets and cache warm-ups) the harness records the ids found in trace_request's tree, the priority of get_trace's final route and of get_route; TLC checks set(trace routes) = set(match) — the match itself being judged against Sat — and equal priorities.",
        note="The per-step action trace clause: on every probe of the project histories (inserts ; change-set) the last TraceAction::from_trace_rules step is compared with Action::from_routes_rule (distinct ranks). Bounded as C01/C02. One genuine defect repaired (route listed twice in the trace for overlapping ip constraints).",
        ref="DESIGN.md section 6, C17"),
    "C13": dict(
        text="TLC checks HeaderMachine.tla exhaustively (code-shaped operations imply the declarative ones for every header list <= MaxH and filter sequence <= MaxF over 3 names incl. a case variant, empty values, 5 operations + unknown); every enumerated behaviour is replayed into the real FilterHeaderAction and Action::filter_headers and the recorded trace is validated by TLC against the declarative layer.",
        note="Bounded: names {x-a, X-A, x-b}, lists <= 2 (quick) / <= 3 (thorough), sequences <= 2 / <= 3. Trusted: TLC, the ndjson recorder, the Lower table for the three names.",
        ref="DESIGN.md section 6, C13"),
}

NOT_YET = {
}

# what the checks gained after the table above was written (appended to the level text)
ADDENDA = {
    "C13": " Round 4: three-header lists in the quick tier; the same filter sequence also goes through actions BUILT FROM MATCHED RULES (all filters in one rule; one rule per filter by descending rank), so Action::merge is on the path.",
    "C11": " Round 4: the insertion-order universe of the router (every order of <=3 rules out of dynamic paths / hosts, prefix weekday lists, nested networks, each against the rebuilt router) is replayed by this check too.",
    "C06": " Round 4: the rich shapes hold an HTML filter with every optional or defaultable field empty; PoolG.",
    "C03": " Round 4: a document whose held text (bare '<') is followed by multi-byte characters; an html stage before a text replace.",
    "C01": " Raw probe requests are built WITHOUT the router's configuration (the router normalises them itself); the pool also holds a sibling dynamic path that leaves a purely literal tree node. Round 4: a Tuesday instant and weekday lists that are prefixes of one another next to the same time window, a window whose bounds are written with UTC offsets, nested networks and prefix weekday lists in the insertion-order universe.",
    "C02": " A second, small universe (MC_Router_c02paths: rules sharing a static path and bucket, a rule under two method buckets, a dynamic host) is explored with VIEW ViewKinds = state + the sequence of operation kinds, so that every KIND of path to a state is replayed (hidden counters and flags of the implementation depend on the path, not on the abstract state). Round 4: the second path-sensitive universe holds a network bucket containing nothing but a rule with an excluded method.",
    "C04": " Conservation is also judged under the byte-level sweeps (every single cut, one byte at a time, empty chunks interleaved), and the gate of the chain (lists that build nothing, empty lists, unsupported encodings, with and without a content encoding) through the inert cases of Pipeline.tla.",
    "C05": " PoolF adds stop / reset flags on rules that may be sampled out; ids are all-digit strings whose string order is not their numeric order. Round 4: PoolG (a redirect target under lists of three codes written in descending order, included and excluded, probed at 200 / 404 / 500).",
    "C07": " Captures shaped like the placeholder of their own marker are part of the capture classes, and the rule declares its marker variables so that targets and filter values are really substituted. Round 4: a dimension sibling_rule (a second rule next to the first one: dynamic hosts sharing Cyrillic / CJK / 2-byte / emoji prefixes, a non-ASCII path prefix, the same source twice, both insertion orders, a removal) and a Latin-1 body whose lone continuation bytes arrive in chunks of their own.",
    "C08": " Further universes: non-ASCII text as a literal and inside a group (character count differs from byte count), sibling subtrees accepting the same string, an expression whose program takes several MiB, and two path-exhaustive ones (no VIEW on three case-variant patterns; ViewKinds on three patterns under one node with 5 operations) because the implementation's hidden state depends on the path to an abstract state. The model's regex semantics is checked against the regex crate itself at every run.",
    "C09": " A catch-all rule whose target takes path and query from a marker is matched against every URL (the forwarded parameters must follow with the separator that target needs), the Location is compared after re-normalisation, and the universe holds an apostrophe (punctuation no encode set touches). Round 4: the EMPTY set of marketing parameters as a configuration, a percent-encoded key next to an ASCII one (encoded order differs from decoded order), and a twin rule with the same literal source that declares markers (must match exactly the same requests).",
    "C10": " Each request is also sent with the header repeated (a value the pattern cannot accept after / before the accepted one); values repeat what the replace transformers look for; a marker expression with a space is used in a header pattern. Round 4: every request is also observed on a twin router after Router::cache and on a twin router with every ignore-case flag set whose marker names are in camel case (judged when no used marker takes an upper-case value).",
    "C12": " Same additional tree universes as C08 where they contain cache operations (non-ASCII, multi-MiB program, deeper histories under ViewKinds); the router history pool holds a renamed-marker version of a rule (captures after an update of a warmed router). Design level: the inductive invariant behind LevelBound / GivesUpLate of Router::cache's loop is discharged by Apalache for an unbounded budget (RouterCacheLoopInd.tla: initiation, consecution, implication).",
    "C14": " Content-coding names are also sent in other spellings (GZIP, Br); an empty output is not a complete stream; lists that build nothing must leave every byte untouched whatever the encoding. Round 4: a 70 kB block of noise (one encoder call has to emit more than the codec's internal buffer), an html stage before / after a text replace, and LISTS of codings (deflate, gzip ...) as unsupported encodings.",
    "C15": " Selectors are .x or N.x (type + class, case-insensitive on the element name); documents hold '>' inside quoted attributes, upper-case elements, comments inside buffered elements (comments belong to the domain), depth-1 paths; the selectors of later filters see the document as the earlier filters left it.",
    "C16": " Lexeme documents and a random family of VALID multi-byte inputs contain characters whose UTF-8 continuation bytes are 0x85 / 0xA0, upper-case raw-text and table elements. Round 4: all strings up to length 4 (thorough 5) over an alphabet of FRAGMENTS (raw-text elements, partial end tags, script-data escapes, characters of 2 / 3 / 4 bytes, NUL).",
    "C17": " Raw requests are built without the router's configuration, and one configuration rewrites no URL at all (only host / header case).",
    "C18": " The model also has api_get_rule_api_version and trusted_proxies_add_proxy (parsable or not), filter objects with and without an HTML stage, a payload the filter answers with fewer bytes than it was given; answers remember their payload so that they are distinct states. The driver runs the sequences in several processes (the allocator audit is per process).",
    "C19": " UnitTrace.tla specifies the attribution of effects to units (add / override per target, squash) behind the applied / seen unit ids and is bound to the real UnitTrace and to FilterHeaderAction with unit ids. The chain universe has two project hosts (a host-less Location is joined to the URL of the hop that answered it); the impact of a re-edited draft (another version of the changed rule under the same action) is compared project vs standalone; the rules an explanation reports as applied are compared with those the live pipeline applies. Round 4: the filter-only rule also acts on a backend 200, the code an analysis assumes when the example gives none.",
}

ALL = ["C%02d" % i for i in range(1, 20)]


def main():
    hooks_file = os.path.join(ROOT, "hooks.json")
    hooks = json.load(open(hooks_file)) if os.path.exists(hooks_file) else {"source_commits": []}
    checks = []
    for pid in sorted(CHECKS):
        c = CHECKS[pid]
        checks.append({
            "property_id": pid,
            "quick_cmd": "./check %s quick" % pid,
            "thorough_cmd": "./check %s thorough" % pid,
            "evidence_file": "/verif/evidence/%s.json" % pid,
            "replay_cmd_template": "./check %s --replay {path}" % pid,
            "engine": "tlc",
            "level_claimed": {"category": c.get("category", "model_checking"), "text": c["text"] + ADDENDA.get(pid, ""), "design_ref": c["ref"]},
            "level_note": c["note"],
            "technique": c.get("technique", TECH),
        })
    na = []
    for pid in ALL:
        if pid not in CHECKS:
            na.append({"property_id": pid, "reason": NOT_YET.get(pid, "specification and binding for this property are not built yet (work in progress); not claimed until its check exists and is silent on the pinned tree")})
    m = {
        "version": 1,
        "setup_cmd": "./setup.sh",
        "hooks": {
            "guard": "redirectionio_verif",
            "enable": "rustc --cfg redirectionio_verif (set through rustflags in /verif/harness/.cargo/config.toml; the harness has a path dependency on /repo, so every check rebuilds the library from /repo's working tree with the hooks on)",
            "baseline_off_cmd": "cd /repo && (cargo nextest run --workspace --no-fail-fast --offline || cargo test --workspace --no-fail-fast --offline)",
            "source_commits": hooks.get("source_commits", []),
            "add_only": True,
        },
        "engines": [
            {"name": "tlc", "path": "/opt/veriftools/tla/tla2tools.jar", "serves_properties": sorted(CHECKS),
             "kind_free_text": "TLC explicit-state model checker: exhaustive check of the TLA+ specifications in /verif/spec, generation of behaviours for replay, validation of recorded traces"},
            {"name": "apalache", "path": "/opt/veriftools/apalache", "serves_properties": ["C12"],
             "kind_free_text": "Apalache symbolic model checker: discharges the inductive invariant of RouterCacheLoopInd.tla (design level, unbounded constants); never decides a verdict on the code"},
            {"name": "harness", "path": "/verif/harness", "serves_properties": sorted(CHECKS),
             "kind_free_text": "Rust driver/recorder linked against the real library built from /repo (no oracle logic)"},
        ],
        "checks": checks,
        "not_applicable": na,
        "notes": "Every check: TLC model-checks the specification, prints behaviours, the harness replays them into the library built from /repo's working tree, TLC validates the recorded trace. Exit 2 = tool error (never a verdict). known_findings.json lists genuine defects of the pinned tree.",
    }
    json.dump(m, open(os.path.join(ROOT, "MANIFEST.json"), "w"), indent=1)
    print("MANIFEST.json: %d checks, %d not claimed" % (len(checks), len(na)))


if __name__ == "__main__":
    main()
