#!/usr/bin/env python3
"""Collects the seeded changes verified by lib/seedtest.py into /verif/seeded/<id>/ and writes seeded/RESULTS.md.
usage: collect_seeded.py <dir with <id>/ folders and results-*.jsonl>"""
import glob
import json
import os
import shutil
import sys

ROOT = os.path.dirname(os.path.dirname(os.path.abspath(__file__)))
src = sys.argv[1] if len(sys.argv) > 1 else "/var/tmp/seedin"
NOTES = {
    "C11-m1": "invalid on the current tree: its premise (the router returning a route twice) was removed by fix fe429dd; its demonstration fails without the patch too",
    "C12-m3": "not caught: needs tree patterns such as /colou?r that rules cannot produce (outside the quantifier of C08 / C12)",
    "C13-n1": "not raised: the change only alters the SPELLING of a rewritten header's name (backend's case instead of the filter's); C13 compares names "
              "case-insensitively and fixes values and order only, so the property still holds; the check reports it as drift against the code-shaped layer",
    "C13-n3": "the change is in Action::filter_headers' response-status guard (state carried across queries): caught by the check of C05, whose scripts query one "
              "action several times with different codes; C13's own behaviours use a fresh action per call",
    "C11-n2": "same change as C12-m1 (LazyRegex::compile without the builder)",
    "C11-n3": "same change as C02-n1 / C01-n3 (MethodMatcher::remove stops at the first bucket)",
    "C18-p1": "superseded by C18-p1b: the original patch no longer applies on the tree that contains fix a29985c (same lines of callback_log.rs); "
              "its run on the earlier tree was caught (abort: the message released twice)",
    "C01-r2": "the change needs a REMOVAL (a multi-network rule removed from a router): it is caught by the check of C02 (panic: the per-layer counter underflows; histories with "
              "removals are C02's universe), not by C01's own check, whose routers are only built",
    "C03-m3": "superseded by C03-m3b: the original patch no longer applies on the tree that contains fix daccdd4",
}
latest = {}
for f in sorted(glob.glob(os.path.join(src, "results-*.jsonl")), key=lambda p: int(p.split("-")[-1].split(".")[0])):
    for line in open(f):
        try:
            r = json.loads(line)
        except ValueError:
            continue
        mid = os.path.basename(r["dir"])
        cur = latest.setdefault(mid, {"checks": {}})
        for k in ("applies", "suite_with_patch", "demo_with_patch", "demo_without_patch", "property"):
            if k in r:
                cur[k] = r[k]
        for c, v in r.get("checks", {}).items():
            cur["checks"][c] = v
rows = []
os.makedirs(os.path.join(ROOT, "seeded"), exist_ok=True)
for mid in sorted(latest):
    d = os.path.join(src, mid)
    if not os.path.isdir(d):
        continue
    out = os.path.join(ROOT, "seeded", mid)
    os.makedirs(out, exist_ok=True)
    for name in ("patch.diff", "demo.rs"):
        if os.path.exists(os.path.join(d, name)):
            shutil.copy(os.path.join(d, name), os.path.join(out, name))
    meta = json.load(open(os.path.join(d, "meta.json"))) if os.path.exists(os.path.join(d, "meta.json")) else {}
    r = latest[mid]
    caught = sorted(c for c, v in r["checks"].items() if v.get("exit") == 1)
    missed = sorted(c for c, v in r["checks"].items() if v.get("exit") == 0)
    meta.update({
        "id": mid,
        "property": meta.get("property") or mid.split("-")[0],
        "verified": {"patch_applies_to_head": r.get("applies"), "suite_with_patch": r.get("suite_with_patch"),
                     "demo_with_patch": r.get("demo_with_patch"), "demo_without_patch": r.get("demo_without_patch"),
                     "how": "lib/seedtest.py verify <dir> --check <ids>: scratch worktree of /repo HEAD under /var/tmp/vp-seed, cargo test with the patch, "
                            "demo.rs as tests/demo.rs with and without the patch, then ./check <id> quick against the patched copy"},
        "checks": {c: {"exit": v.get("exit"), "classes": sorted({x.split("class=")[-1] for x in v.get("violations", [])})} for c, v in r["checks"].items()},
        "caught_by": caught, "not_caught_by": missed, "note": NOTES.get(mid, ""),
    })
    json.dump(meta, open(os.path.join(out, "meta.json"), "w"), indent=1)
# the table is rebuilt from everything kept under seeded/ (earlier rounds included)
for mp in sorted(glob.glob(os.path.join(ROOT, "seeded", "*", "meta.json"))):
    meta = json.load(open(mp))
    mid = meta.get("id") or os.path.basename(os.path.dirname(mp))
    caught = meta.get("caught_by", [])
    note = NOTES.get(mid, meta.get("note", ""))
    if note != meta.get("note", ""):
        meta["note"] = note
        json.dump(meta, open(mp, "w"), indent=1)
    cls = sorted({x for c in caught for x in meta.get("checks", {}).get(c, {}).get("classes", [])})
    rows.append((mid, meta.get("property", mid.split("-")[0]), (meta.get("summary") or "")[:150].replace("|", "/"), ", ".join(caught) or "—", ", ".join(cls) or "—", note))
with open(os.path.join(ROOT, "seeded", "RESULTS.md"), "w") as f:
    f.write("# Seeded changes and the checks that catch them\n\n(generated by lib/collect_seeded.py from the lib/seedtest.py runs; every change compiles, keeps the 549 tests green, "
            "and its demonstration fails with the patch and passes without it, unless noted)\n\n")
    f.write("| change | property | what it does | caught by | verdict classes | note |\n|---|---|---|---|---|---|\n")
    for row in rows:
        f.write("| %s | %s | %s | %s | %s | %s |\n" % row)
    n = len(rows)
    c = sum(1 for r in rows if r[3] != "—")
    f.write("\n%d changes, %d caught by the check(s) of their property.\n" % (n, c))
print("seeded: %d changes" % len(rows))
