#!/bin/sh
# Offline build of the verification framework (run once after a fresh restore).
set -e
cd "$(dirname "$0")"
export CARGO_NET_OFFLINE=true
[ -f harness/Cargo.lock ] || cp /repo/Cargo.lock harness/Cargo.lock
(cd harness && cargo build --profile verif --offline)
mkdir -p evidence/replays .work
# sanity: TLC and the CommunityModules are reachable
java -cp /opt/veriftools/tla/tla2tools.jar:/opt/veriftools/tla/CommunityModules-deps.jar tlc2.TLC -h >/dev/null 2>&1 || true
echo "setup done"
