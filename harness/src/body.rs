//! Body filter driver (C03, C04, C15): a document given as lexemes cut into units, a filter
//! list and a chunk schedule (unit counts) are run through the real `FilterBodyAction`, once as a
//! whole and once chunked; for the first schedule of a case every single byte cut and
//! one-byte-at-a-time delivery are swept as well.  Outputs are recorded, nothing is judged.
use redirectionio::api::{BodyFilter, HTMLBodyFilter, TextAction, TextBodyFilter};
use redirectionio::filter::FilterBodyAction;
use redirectionio::http::Header;
use serde_json::{json, Value};

use crate::util::s;

pub fn filters_of(fs: &Value) -> Vec<BodyFilter> {
    fs.as_array()
        .unwrap()
        .iter()
        .map(|f| {
            let act = s(f, "act");
            match act.as_str() {
                "text_append" | "text_prepend" | "text_replace" => BodyFilter::Text(TextBodyFilter {
                    action: match act.as_str() {
                        "text_append" => TextAction::Append,
                        "text_prepend" => TextAction::Prepend,
                        _ => TextAction::Replace,
                    },
                    content: s(f, "value"),
                    id: None,
                    target_hash: None,
                }),
                _ => BodyFilter::HTML(HTMLBodyFilter {
                    action: match act.as_str() {
                        "append" => "append_child".to_string(),
                        "prepend" => "prepend_child".to_string(),
                        other => other.to_string(),
                    },
                    value: s(f, "value"),
                    inner_value: None,
                    element_tree: f["path"].as_array().unwrap().iter().map(|x| x.as_str().unwrap().to_string()).collect(),
                    css_selector: match s(f, "sel").as_str() {
                        "none" => None,
                        "empty" => Some(String::new()),
                        "x" => Some(".x".to_string()),
                        name => Some(format!("{}.x", name)),
                    },
                    id: None,
                    target_hash: None,
                }),
            }
        })
        .collect()
}

pub fn html_headers() -> Vec<Header> {
    vec![Header { name: "Content-Type".to_string(), value: "text/html; charset=utf-8".to_string() }]
}

/// feed the chunks, then end(); returns the outputs per call (last = end())
pub fn run_chunks(filters: Vec<BodyFilter>, headers: &[Header], chunks: &[&[u8]]) -> Vec<Vec<u8>> {
    let mut f = FilterBodyAction::new(filters, headers);
    let mut outs = Vec::new();
    for c in chunks {
        outs.push(f.filter(c.to_vec(), None));
    }
    outs.push(f.end(None));
    outs
}

fn cat(v: &[Vec<u8>]) -> Vec<u8> {
    v.iter().flat_map(|x| x.iter().cloned()).collect()
}

/// placeholders used by the specifications (their sources are ASCII) for multi-byte characters and for an invalid byte
/// ~a~ ~y~ ~A~ contain the continuation bytes 0xA0 / 0x85 (white space in Latin-1, not in UTF-8)
const SUBST: [(&str, &[u8]); 8] = [("~e~", "\u{e9}".as_bytes()), ("~z~", "\u{4e2d}".as_bytes()), ("~g~", "\u{1F600}".as_bytes()),
                                   ("~u~", "\u{fc}".as_bytes()), ("~!~", &[0xFF]), ("~a~", "\u{e0}".as_bytes()), ("~y~", "\u{5143}".as_bytes()),
                                   ("~A~", "\u{c5}".as_bytes())];

/// ~big~ expands to 70 000 highly compressible bytes (a single compressed chunk then inflates to more than any codec buffer)
pub const BIG: &str = "~big~";
pub const BIG_LEN: usize = 70_000;

/// ~rnd~ expands to 70 000 bytes of deterministic noise over letters and digits (it hardly compresses)
pub const RND: &str = "~rnd~";
pub fn noise() -> &'static [u8] {
    static N: std::sync::OnceLock<Vec<u8>> = std::sync::OnceLock::new();
    N.get_or_init(|| {
        let mut x: u64 = 0x9E37_79B9_7F4A_7C15;
        (0..BIG_LEN).map(|_| {
            x ^= x << 13;
            x ^= x >> 7;
            x ^= x << 17;
            b"abcdefghijklmnopqrstuvwxyz0123456789"[(x % 36) as usize]
        }).collect()
    })
}

pub fn concretise(unit: &str) -> Vec<u8> {
    let mut out: Vec<u8> = Vec::new();
    let mut rest = unit;
    'outer: while !rest.is_empty() {
        if rest.starts_with(RND) {
            out.extend_from_slice(noise());
            rest = &rest[RND.len()..];
            continue;
        }
        if rest.starts_with(BIG) {
            out.extend(std::iter::repeat(b'y').take(BIG_LEN));
            rest = &rest[BIG.len()..];
            continue;
        }
        for (k, v) in SUBST.iter() {
            if rest.starts_with(k) {
                out.extend_from_slice(v);
                rest = &rest[k.len()..];
                continue 'outer;
            }
        }
        let c = rest.chars().next().unwrap();
        let mut buf = [0u8; 4];
        out.extend_from_slice(c.encode_utf8(&mut buf).as_bytes());
        rest = &rest[c.len_utf8()..];
    }
    out
}

/// inverse of `concretise` on outputs (bytes -> placeholder text); other invalid bytes become U+FFFD
pub fn lossy(b: &[u8]) -> String {
    let mut out = String::new();
    let mut i = 0;
    'outer: while i < b.len() {
        if b.len() - i >= BIG_LEN && b[i..i + BIG_LEN].iter().all(|x| *x == b'y') {
            out.push_str(BIG);
            i += BIG_LEN;
            continue;
        }
        if b.len() - i >= BIG_LEN && b[i] == noise()[0] && &b[i..i + BIG_LEN] == noise() {
            out.push_str(RND);
            i += BIG_LEN;
            continue;
        }
        for (k, v) in SUBST.iter() {
            if b[i..].starts_with(v) {
                out.push_str(k);
                i += v.len();
                continue 'outer;
            }
        }
        // one (possibly invalid) character
        let mut n = 1;
        while i + n < b.len() && (b[i + n] & 0xC0) == 0x80 && n < 4 {
            n += 1;
        }
        out.push_str(&String::from_utf8_lossy(&b[i..i + n]));
        i += n;
    }
    out
}

fn strip(out: &str, values: &[String]) -> String {
    let mut o = out.to_string();
    for v in values {
        if !v.is_empty() {
            o = o.replace(v.as_str(), "");
        }
    }
    o
}

pub fn run(case: &Value) -> Vec<Value> {
    let units: Vec<Vec<u8>> = case["doc"]
        .as_array()
        .unwrap()
        .iter()
        .flat_map(|l| l["us"].as_array().unwrap().iter().map(|u| concretise(u.as_str().unwrap())).collect::<Vec<Vec<u8>>>())
        .collect();
    let body: Vec<u8> = units.iter().flat_map(|u| u.iter().cloned()).collect();
    let values: Vec<String> = case["fs"].as_array().unwrap().iter().map(|f| s(f, "value")).collect();
    let headers = html_headers();
    let mk = || filters_of(&case["fs"]);

    let whole = cat(&run_chunks(mk(), &headers, &[&body]));
    // the schedule: unit counts -> byte ranges
    let sched: Vec<usize> = case["sched"].as_array().unwrap().iter().map(|x| x.as_u64().unwrap() as usize).collect();
    let mut pieces: Vec<Vec<u8>> = Vec::new();
    let mut u = 0usize;
    for n in &sched {
        let mut p = Vec::new();
        for k in u..(u + n).min(units.len()) {
            p.extend_from_slice(&units[k]);
        }
        u += n;
        pieces.push(p);
    }
    let refs: Vec<&[u8]> = pieces.iter().map(|p| p.as_slice()).collect();
    let outs = run_chunks(mk(), &headers, &refs);
    let chunked = cat(&outs);
    let whole_s = lossy(&whole);
    let chunked_s = lossy(&chunked);
    let mut ev = json!({
        "ev": "case", "doc": case["doc"], "fs": case["fs"], "sched": case["sched"],
        "whole": whole_s, "chunked": chunked_s,
        "outs": outs.iter().map(|o| lossy(o)).collect::<Vec<String>>(),
        "whole_stripped": strip(&whole_s, &values), "chunked_stripped": strip(&chunked_s, &values),
        "sweep": false,
    });
    if sched.len() == 1 {
        // byte level sweep: every single cut, and one byte at a time; only differing outputs are kept
        let mut diffs = Vec::new();
        let mut cut_lost: Vec<usize> = Vec::new();
        // every single cut (a stride on very long bodies)
        let step = if body.len() > 3000 { body.len() / 400 } else { 1 };
        let mut c = 1;
        while c < body.len() {
            let o = cat(&run_chunks(mk(), &headers, &[&body[..c], &body[c..]]));
            if o != whole {
                diffs.push(json!([c, lossy(&o)]));
                // conservation under this cut: stripping the inserted values must give back what the whole run gives
                if strip(&lossy(&o), &values) != strip(&whole_s, &values) {
                    cut_lost.push(c);
                }
            }
            c += step;
        }
        let unit = if body.len() > 3000 { 97 } else { 1 };
        let bytes: Vec<&[u8]> = body.chunks(unit).collect();
        let o1 = cat(&run_chunks(mk(), &headers, &bytes));
        // an empty chunk interleaved after every byte
        let mut inter: Vec<&[u8]> = Vec::new();
        let empty: &[u8] = &[];
        for b in body.chunks(unit) {
            inter.push(b);
            inter.push(empty);
        }
        let o2 = cat(&run_chunks(mk(), &headers, &inter));
        ev["sweep"] = json!(true);
        ev["cut_diffs"] = json!(diffs);
        ev["cuts"] = json!(body.len().saturating_sub(1));
        ev["byte1"] = json!(lossy(&o1));
        ev["byte1_empty"] = json!(lossy(&o2));
        ev["byte1_stripped"] = json!(strip(&lossy(&o1), &values));
        ev["byte1_empty_stripped"] = json!(strip(&lossy(&o2), &values));
        ev["cut_lost"] = json!(cut_lost);
        ev["ulens"] = json!(units.iter().map(|u| u.len()).collect::<Vec<usize>>());
    }
    vec![ev]
}
