//! Marker driver (C10): a rule whose path / host / header pattern contain markers and a request
//! built by instantiating every marker are run through the real Router and Action; match result,
//! Location, header-filter value and body-filter output are recorded (header name sent in the
//! rule's spelling and in lower case).
use redirectionio::action::Action;
use redirectionio::api::Rule;
use redirectionio::http::{Header, Request};
use redirectionio::router::Router;
use redirectionio::RouterConfig;
use serde_json::{json, Map, Value};

use crate::util::s;

/// ~e~ / ~E~ stand for U+00E9 / U+00C9 in the (ASCII) specification sources
fn real(x: &str) -> String {
    x.replace("~e~", "\u{e9}").replace("~E~", "\u{c9}")
}
fn back(x: &str) -> String {
    x.replace('\u{e9}', "~e~").replace('\u{c9}', "~E~")
}

/// the twin spelling of a marker name: second letter in upper case (a, aB, aBc: still prefixes of one another)
fn camel(n: &str, on: bool) -> String {
    if !on || n.len() < 2 {
        return n.to_string();
    }
    let mut c = n.chars();
    let first = c.next().unwrap();
    let second = c.next().unwrap();
    format!("{}{}{}", first, second.to_ascii_uppercase(), c.as_str())
}

fn source_as(tpl: &Value, twin: bool) -> String {
    tpl.as_array().unwrap().iter().map(|it| if it[0] == "lit" { it[1].as_str().unwrap().to_string() } else { format!("@{}", camel(it[1].as_str().unwrap(), twin)) }).collect()
}

fn instantiate(tpl: &Value, inst: &Value) -> String {
    real(&tpl.as_array().unwrap().iter().map(|it| if it[0] == "lit" { it[1].as_str().unwrap().to_string() } else { inst[it[1].as_str().unwrap()].as_str().unwrap().to_string() }).collect::<String>())
}

fn transformer(name: &str) -> Value {
    let opt = |pairs: &[(&str, &str)]| -> Value {
        let mut m = Map::new();
        for (k, v) in pairs {
            m.insert(k.to_string(), json!(v));
        }
        Value::Object(m)
    };
    if let Some(rest) = name.strip_prefix("slice_") {
        let mut it = rest.split('_');
        let (f, t) = (it.next().unwrap_or("0"), it.next().unwrap_or("none"));
        return json!({"type": "slice", "options": opt(&[("from", f), ("to", t)])});
    }
    match name {
        "replace_b_x" => json!({"type": "replace", "options": opt(&[("something", "b"), ("with", "x")])}),
        "replace_dash_plus" => json!({"type": "replace", "options": opt(&[("something", "-"), ("with", "+")])}),
        other => json!({"type": other, "options": null}),
    }
}

fn observe(router: &Router<Rule>, config: &RouterConfig, path: &str, host: Option<String>, hdr: Option<(String, String)>) -> Value {
    observe_many(router, config, path, host, hdr.into_iter().collect())
}

fn observe_many(router: &Router<Rule>, config: &RouterConfig, path: &str, host: Option<String>, hdrs: Vec<(String, String)>) -> Value {
    let mut req = Request::from_config(config, path.to_string(), host, Some("http".to_string()), None, None, None);
    for (n, v) in hdrs {
        req.add_header(n, v, config.ignore_header_case);
    }
    let routes = router.match_request(&req);
    if routes.is_empty() {
        return json!({"m": false, "loc": "", "hf": "", "bf": ""});
    }
    let mut a = Action::from_routes_rule(routes, &req, None);
    let hs = a.filter_headers(Vec::<Header>::new(), 0, false, None);
    let get = |n: &str| hs.iter().find(|h| h.name == n).map(|h| h.value.clone()).unwrap_or_default();
    let bf = match a.create_filter_body(0, &[]) {
        None => "B".to_string(),
        Some(mut f) => {
            let mut o = f.filter(b"B".to_vec(), None);
            o.extend(f.end(None));
            String::from_utf8_lossy(&o).to_string()
        }
    };
    json!({"m": true, "loc": back(&get("Location")), "hf": back(&get("X-V")), "bf": back(&bf)})
}

fn build(r: &Value, config: &RouterConfig, twin: bool) -> Router<Rule> {
    let source = |t: &Value| source_as(t, twin);
    let markers: Vec<Value> = r["markers"].as_object().unwrap().iter().map(|(n, m)| {
        json!({"name": camel(n, twin), "regex": s(m, "regex"), "transformers": m["chain"].as_array().unwrap().iter().map(|t| transformer(t.as_str().unwrap())).collect::<Vec<Value>>()})
    }).collect();
    let has = |k: &str| !r[k].as_array().unwrap().is_empty();
    // explicitly declared variables (one per marker, shortest name first, then request derived ones)
    let mut names: Vec<String> = r["markers"].as_object().unwrap().keys().cloned().collect();
    names.sort_by(|a, b| a.len().cmp(&b.len()).then(a.cmp(b)));
    let variables: Vec<Value> = if r["vars"].as_bool().unwrap_or(false) {
        names.iter().map(|n| json!({"name": camel(n, twin), "type": {"marker": camel(n, twin)}})).collect()
    } else {
        vec![]
    };
    let rule_json = json!({
        "id": "r", "rank": 0, "markers": markers, "variables": variables,
        "source": {"path": source(&r["path"]), "host": if has("host") { json!(source(&r["host"])) } else { Value::Null },
                   "headers": if has("hdr") { json!([{"name": "X-K", "type": "match_regex", "value": source(&r["hdr"])}]) } else { Value::Null }},
        "status_code": 301, "target": source(&r["target"]),
        "header_filters": [{"action": "add", "header": "X-V", "value": source(&r["hfv"]), "id": null, "target_hash": null}],
        "body_filters": [{"action": "append_text", "content": source(&r["bfv"]), "id": null, "target_hash": null}],
    });
    let rule: Rule = serde_json::from_value(rule_json).expect("rule json");
    let mut router = Router::<Rule>::from_config(config.clone());
    router.insert(rule);
    router
}

pub fn run(case: &Value) -> Vec<Value> {
    let r = &case["rule"];
    let inst = &case["inst"];
    let has = |k: &str| !r[k].as_array().unwrap().is_empty();
    let config = RouterConfig::default();
    let router = build(r, &config, false);
    let path = instantiate(&r["path"], inst);
    let host = if has("host") { Some(instantiate(&r["host"], inst)) } else { Some("example.com".to_string()) };
    let hv = if has("hdr") { Some(instantiate(&r["hdr"], inst)) } else { None };
    let o1 = observe(&router, &config, &path, host.clone(), hv.clone().map(|v| ("X-K".to_string(), v)));
    // twin 1: the same router after a cache warm-up (capture expressions compiled in place)
    let mut cached = build(r, &config, false);
    cached.cache(Some(1000));
    let oc = observe(&cached, &config, &path, host.clone(), hv.clone().map(|v| ("X-K".to_string(), v)));
    // twin 2: every ignore-case flag set, marker names in camel case (a, aB, aBc)
    let mut icfg = RouterConfig::default();
    icfg.ignore_host_case = true;
    icfg.ignore_path_and_query_case = true;
    icfg.ignore_header_case = true;
    let irouter = build(r, &icfg, true);
    let oi = observe(&irouter, &icfg, &path, host.clone(), hv.clone().map(|v| ("X-K".to_string(), v)));
    // the header sent several times: a value the pattern cannot accept after / before the instantiated one
    let (oa, ob) = match &hv {
        Some(v) => (
            observe_many(&router, &config, &path, host.clone(), vec![("X-K".to_string(), v.clone()), ("X-K".to_string(), "zz".to_string())]),
            observe_many(&router, &config, &path, host.clone(), vec![("X-K".to_string(), "zz".to_string()), ("X-K".to_string(), v.clone())]),
        ),
        None => (o1.clone(), o1.clone()),
    };
    let o2 = observe(&router, &config, &path, host, hv.map(|v| ("x-k".to_string(), v)));
    vec![json!({"ev": "marker", "rule": r, "inst": inst, "o": o1, "olc": o2, "oa": oa, "ob": ob, "oc": oc, "oi": oi})]
}
