//! Router driver (C01, C02, C17, C12 router part, C06 request part).  TLC-generated histories of
//! router operations are executed on real `Router<Rule>` handles; after every operation every
//! probe request is matched on: the handle, a router rebuilt from scratch from the live rules,
//! a twin that is cache-warmed after every step, through the explain trace, through get_route,
//! and after a JSON round trip of the request.  Everything is recorded; nothing is judged here.
use redirectionio::action::Action;
use redirectionio::api::{Rule, RuleChangeSet};
use redirectionio::http::Request;
use redirectionio::router::{Router, Trace};
use redirectionio::RouterConfig;
use serde_json::{json, Map, Value};
use std::collections::HashSet;
use std::net::IpAddr;
use std::str::FromStr;
use std::sync::Arc;

use crate::util::s;

fn opt(v: &str) -> Value {
    if v.is_empty() { Value::Null } else { json!(v) }
}

/// abstract rule record of Router.tla -> Rule JSON
pub fn rule_json(r: &Value) -> Value {
    let id = s(r, "id");
    let rank: u64 = id.trim_start_matches('r').parse().unwrap_or(0);
    let mut markers = Vec::new();
    let mut target = format!("/t/{}", id);
    let host = match r["host"][0].as_str().unwrap_or("none") {
        // "any host" has two spellings in rule data, absent and the empty string: even ids use the second one
        "none" => if rank % 2 == 0 { json!("") } else { Value::Null },
        "dyn" => {
            markers.push(json!({"name": "sub", "regex": "[a-z]+"}));
            target.push_str("/@sub");
            json!(r["host"][1].as_str().unwrap())
        }
        _ => json!(r["host"][1].as_str().unwrap()),
    };
    let path = r["path"][1].as_str().unwrap().to_string();
    let mut uses_m = false;
    if r["path"][0].as_str() == Some("dyn") {
        if path.contains("@n") {
            // the same expression with the marker under another name
            markers.push(json!({"name": "n", "regex": "[a-z]+"}));
            target.push_str("/@n");
        } else {
            uses_m = true;
            target.push_str("/@m");
        }
    }
    let hdrs: Vec<Value> = r["hdrs"].as_array().unwrap().iter().map(|h| {
        if s(h, "kind") == "match_regex" { uses_m = true; }
        json!({"name": s(h, "name"), "type": s(h, "kind"), "value": if s(h, "kind").starts_with("is_defined") || s(h, "kind") == "is_not_defined" { Value::Null } else { json!(s(h, "value")) }})
    }).collect();
    if uses_m {
        markers.push(json!({"name": "m", "regex": "[a-z]+"}));
    }
    let ips: Vec<Value> = r["ips"].as_array().unwrap().iter().map(|c| {
        if c[0].as_str() == Some("in") { json!({"in_range": c[1]}) } else { json!({"not_in_range": c[1]}) }
    }).collect();
    let win = |w: &Value| -> Value { json!([opt(w[0].as_str().unwrap_or("")), opt(w[1].as_str().unwrap_or(""))]) };
    let dates: Vec<Value> = r["dates"].as_array().unwrap().iter().map(win).collect();
    let times: Vec<Value> = r["times"].as_array().unwrap().iter().map(win).collect();
    let methods = r["methods"].as_array().unwrap();
    let mut source = Map::new();
    // "any scheme" has two spellings in rule data, absent and the empty string: even ids use the second one
    source.insert("scheme".into(), if s(r, "scheme").is_empty() && rank % 2 == 0 { json!("") } else { opt(&s(r, "scheme")) });
    source.insert("host".into(), host);
    source.insert("path".into(), json!(path));
    source.insert("ips".into(), if ips.is_empty() { Value::Null } else { json!(ips) });
    source.insert("methods".into(), if methods.is_empty() { Value::Null } else { json!(methods) });
    source.insert("exclude_methods".into(), if r["excl"].as_bool().unwrap_or(false) { json!(true) } else { Value::Null });
    source.insert("headers".into(), if hdrs.is_empty() { Value::Null } else { json!(hdrs) });
    if !dates.is_empty() { source.insert("datetime".into(), json!(dates)); }
    if !times.is_empty() { source.insert("time".into(), json!(times)); }
    if !r["wds"].as_array().unwrap().is_empty() { source.insert("weekdays".into(), r["wds"].clone()); }
    json!({"id": id, "rank": rank, "source": Value::Object(source), "status_code": 301, "target": target, "markers": markers})
}

pub fn config_of(c: &Value) -> RouterConfig {
    serde_json::from_value(json!({
        "ignore_host_case": c["ihc"], "ignore_header_case": c["ihdr"], "ignore_path_and_query_case": c["ipc"],
        "always_match_any_host": c["always"], "ignore_marketing_query_params": c.get("mkt").and_then(|x| x.as_bool()).unwrap_or(true), "pass_marketing_query_params_to_target": true,
    })).expect("config")
}

/// compact probe [scheme, host, ip, method, hdr index (1-based), at, path] -> Request
pub fn request_of(config: &RouterConfig, q: &Value, hdrs: &Value) -> Request {
    let g = |i: usize| q[i].as_str().unwrap_or("").to_string();
    let o = |v: String| if v.is_empty() { None } else { Some(v) };
    let ip = o(g(2)).map(|x| IpAddr::from_str(&x).expect("ip atom"));
    let mut req = Request::from_config(config, g(6), o(g(1)), o(g(0)), o(g(3)), ip, None);
    let hi = q[4].as_u64().unwrap_or(1) as usize;
    if let Some(list) = hdrs[hi - 1].as_array() {
        for h in list {
            req.add_header(s(h, "name"), s(h, "value"), config.ignore_header_case);
        }
    }
    req.created_at = None;
    let at = g(5);
    if !at.is_empty() {
        req.set_created_at(Some(at));
    }
    req
}

fn sorted_ids(v: Vec<String>) -> Vec<String> {
    let mut v = v;
    v.sort();
    v
}

struct Handle {
    main: Router<Rule>,
    twin: Router<Rule>, // same history + cache warm-up after every step
}

fn rules_of(idx: &Value, pool: &[Rule]) -> Vec<Rule> {
    let mut v: Vec<u64> = idx.as_array().unwrap().iter().map(|x| x.as_u64().unwrap()).collect();
    v.sort();
    v.iter().map(|i| pool[*i as usize - 1].clone()).collect()
}

fn observe(h: &Handle, config: &RouterConfig, live: &Value, pool: &[Rule], all_ids: &[String], probes: &[Value], hdrs: &Value) -> Value {
    let mut rebuilt = Router::<Rule>::from_config(config.clone());
    for r in rules_of(live, pool) {
        rebuilt.insert(r);
    }
    let mut pr = Vec::new();
    for q in probes {
        // the raw request is what a client of the library hands over: built WITHOUT the router's configuration (nothing is
        // lower-cased or rewritten yet); the router normalises it itself (rebuild_request / trace_request)
        let _ = config;
        let raw = request_of(&RouterConfig::default(), q, hdrs);
        let req = h.main.rebuild_request(&raw);
        let routes = h.main.match_request(&req);
        let ids = sorted_ids(routes.iter().map(|r| r.id().to_string()).collect());
        let mut e = Map::new();
        e.insert("q".into(), q.clone());
        e.insert("ids".into(), json!(ids));
        let rb = sorted_ids(rebuilt.match_request(&rebuilt.rebuild_request(&raw)).iter().map(|r| r.id().to_string()).collect());
        if rb != ids { e.insert("rb".into(), json!(rb)); }
        let c = sorted_ids(h.twin.match_request(&h.twin.rebuild_request(&raw)).iter().map(|r| r.id().to_string()).collect());
        if c != ids { e.insert("c".into(), json!(c)); }
        // explain trace
        let traces = h.main.trace_request(&raw);
        let mut tr: Vec<String> = Trace::get_routes_from_traces(&traces).iter().map(|r| r.id().to_string()).collect();
        tr.sort();
        tr.dedup();
        let mut idset = ids.clone();
        idset.dedup();
        if tr != idset { e.insert("tr".into(), json!(tr)); }
        let ctr_raw = h.twin.trace_request(&raw);
        let mut ctr: Vec<String> = Trace::get_routes_from_traces(&ctr_raw).iter().map(|r| r.id().to_string()).collect();
        ctr.sort();
        ctr.dedup();
        if ctr != tr { e.insert("ctr".into(), json!(ctr)); }
        let rt = serde_json::to_value(h.main.get_trace(&raw)).unwrap();
        let fin = rt["final_route"]["priority"].as_i64();
        let gr = h.main.get_route(&req).map(|r| r.priority());
        e.insert("fin".into(), json!(fin.map(|x| vec![x]).unwrap_or_default()));
        e.insert("gr".into(), json!(gr.map(|x| vec![x]).unwrap_or_default()));
        // captures through the redirect target
        let mut tg: Vec<String> = routes.iter().map(|r| format!("{}={}", r.id(), Action::get_target(r, &req).unwrap_or_default())).collect();
        tg.sort();
        let creq = h.twin.rebuild_request(&raw);
        let mut ctg: Vec<String> = h.twin.match_request(&creq).iter().map(|r| format!("{}={}", r.id(), Action::get_target(r, &creq).unwrap_or_default())).collect();
        ctg.sort();
        e.insert("tg".into(), json!(tg));
        if ctg != tg { e.insert("ctg".into(), json!(ctg)); }
        // request JSON round trip (C06)
        let rq = match serde_json::to_string(&req).ok().and_then(|sv| serde_json::from_str::<Request>(&sv).ok()) {
            Some(r2) => sorted_ids(h.main.match_request(&r2).iter().map(|r| r.id().to_string()).collect()),
            None => vec!["<request json failed>".to_string()],
        };
        if rq != ids { e.insert("rq".into(), json!(rq)); }
        pr.push(Value::Object(e));
    }
    let byid: Vec<&String> = all_ids.iter().filter(|id| h.main.get_route_by_id(id).is_some()).collect();
    json!({"len": h.main.len(), "byid": byid, "pr": pr})
}

pub fn run(case: &Value) -> Vec<Value> {
    let mut evs = Vec::new();
    let config = config_of(&case["cfg"]);
    let pool: Vec<Rule> = case["u"]["pool"].as_array().unwrap().iter().map(|r| serde_json::from_value(rule_json(r)).expect("rule json")).collect();
    let mut all_ids: Vec<String> = pool.iter().map(|r| r.id.clone()).collect();
    all_ids.sort();
    all_ids.dedup();
    let hdrs = &case["u"]["hdrs"];
    let probes: Vec<Value> = case["probes"].as_array().cloned().unwrap_or_default();
    let mut hs: Vec<Option<Handle>> = vec![
        Some(Handle { main: Router::from_config(config.clone()), twin: Router::from_config(config.clone()) }),
        None,
    ];
    evs.push(json!({"ev": "reset", "cfg": case["cfg"]}));
    for o in case["ops"].as_array().unwrap() {
        let hi = o["h"].as_u64().unwrap_or(1) as usize - 1;
        let op = s(o, "op");
        let mut e = Map::new();
        e.insert("ev".into(), json!(op));
        // the operation with its rule indices expanded to the abstract records (for the trace spec)
        let expand = |idx: &Value| -> Value {
            let mut v: Vec<u64> = idx.as_array().unwrap().iter().map(|x| x.as_u64().unwrap()).collect();
            v.sort();
            Value::Array(v.iter().map(|i| case["u"]["pool"][*i as usize - 1].clone()).collect())
        };
        e.insert("o".into(), json!({"op": o["op"], "h": o["h"], "ids": o["ids"], "rules": expand(&o["rules"]), "upd": expand(&o["upd"])}));
        let added = rules_of(&o["rules"], &pool);
        let updated = rules_of(&o["upd"], &pool);
        let ids: HashSet<String> = o["ids"].as_array().unwrap().iter().map(|x| x.as_str().unwrap().to_string()).collect();
        match op.as_str() {
            "insert" => {
                let h = hs[hi].as_mut().unwrap();
                for r in added {
                    h.main.insert(r.clone());
                    h.twin.insert(r);
                }
            }
            "remove" => {
                let h = hs[hi].as_mut().unwrap();
                let id = ids.iter().next().unwrap();
                let r = h.main.remove(id);
                let rt = h.twin.remove(id);
                e.insert("ret".into(), json!(r.map(|x| vec![x.id().to_string()]).unwrap_or_default()));
                e.insert("twin_ret".into(), json!(rt.map(|x| vec![x.id().to_string()]).unwrap_or_default()));
            }
            "batch_remove" => {
                let h = hs[hi].as_mut().unwrap();
                h.main.batch_remove(&ids);
                h.twin.batch_remove(&ids);
            }
            "change_set" => {
                let h = hs[hi].as_mut().unwrap();
                h.main.apply_change_set(added.clone(), updated.clone(), ids.clone());
                h.twin.apply_change_set(added, updated, ids);
            }
            "fork" => {
                let h1 = hs[0].take().unwrap();
                let a1 = Arc::new(h1.main);
                let t1 = Arc::new(h1.twin);
                let cs = RuleChangeSet { added: added.clone(), updated: updated.clone(), deleted: ids.clone() };
                let n2 = cs.clone().update_existing_router(a1.clone());
                let t2 = cs.update_existing_router(t1.clone());
                hs[1] = Some(Handle { main: n2, twin: t2 });
                hs[0] = Some(Handle { main: Arc::try_unwrap(a1).expect("sole owner"), twin: Arc::try_unwrap(t1).expect("sole owner") });
            }
            "cache" => {
                let h = hs[hi].as_mut().unwrap();
                h.main.cache(Some(2));
            }
            _ => {}
        }
        let mut obs = Vec::new();
        for (k, h) in hs.iter_mut().enumerate() {
            if let Some(h) = h {
                h.twin.cache(None);
                obs.push(json!({"h": k + 1, "o": observe(h, &config, &o["after"][k], &pool, &all_ids, &probes, hdrs)}));
            }
        }
        e.insert("obs".into(), json!(obs));
        evs.push(Value::Object(e));
    }
    evs
}
