//! Compressed-body driver (C14): the document is compressed with an INDEPENDENT producer (flate2 /
//! brotli at several levels), the compressed stream is cut in many ways and fed to the real chain
//! built for `Content-Encoding: <enc>`; the concatenated output is decoded with a fresh independent
//! decoder and recorded next to the output of the same filters on the plain body.
use flate2::Compression;
use redirectionio::filter::FilterBodyAction;
use redirectionio::http::Header;
use serde_json::{json, Value};
use std::io::{Read, Write};

use crate::body::{concretise, filters_of, lossy};
use crate::util::s;

fn compress(enc: &str, level: u32, data: &[u8]) -> Vec<u8> {
    match enc {
        "gzip" => {
            let mut e = flate2::write::GzEncoder::new(Vec::new(), Compression::new(level));
            e.write_all(data).unwrap();
            e.finish().unwrap()
        }
        "deflate" => {
            let mut e = flate2::write::ZlibEncoder::new(Vec::new(), Compression::new(level));
            e.write_all(data).unwrap();
            e.finish().unwrap()
        }
        _ => {
            let mut out = Vec::new();
            {
                let mut w = brotli::CompressorWriter::new(&mut out, 4096, level, if level > 5 { 22 } else { 18 });
                w.write_all(data).unwrap();
            }
            out
        }
    }
}

/// (decoded bytes, stream complete and valid)
fn decompress(enc: &str, data: &[u8]) -> (Vec<u8>, bool) {
    let mut out = Vec::new();
    let ok = match enc {
        "gzip" => flate2::read::GzDecoder::new(data).read_to_end(&mut out).is_ok(),
        "deflate" => flate2::read::ZlibDecoder::new(data).read_to_end(&mut out).is_ok(),
        _ => brotli::Decompressor::new(data, 4096).read_to_end(&mut out).is_ok(),
    };
    (out, ok)
}

fn headers(enc: &str) -> Vec<Header> {
    let mut h = vec![Header { name: "Content-Type".to_string(), value: "text/html".to_string() }];
    if enc != "none" {
        h.push(Header { name: "Content-Encoding".to_string(), value: enc.to_string() });
    }
    h
}

fn run(case: &Value, enc: &str, chunks: &[&[u8]]) -> Vec<u8> {
    let mut f = FilterBodyAction::new(filters_of(&case["fs"]), &headers(enc));
    let mut out = Vec::new();
    for c in chunks {
        out.extend(f.filter(c.to_vec(), None));
    }
    out.extend(f.end(None));
    out
}


pub fn run_case(case: &Value) -> Vec<Value> {
    // `declared` is the spelling sent in the Content-Encoding header, `enc` the codec it names
    let declared = s(case, "enc");
    let enc = declared.to_lowercase();
    let body: Vec<u8> = case["doc"].as_array().unwrap().iter().flat_map(|l| l["us"].as_array().unwrap().iter().flat_map(|u| concretise(u.as_str().unwrap())).collect::<Vec<u8>>()).collect();
    let plain_out = run(case, "none", &[&body]);
    let is_empty = FilterBodyAction::new(filters_of(&case["fs"]), &headers(&declared)).is_empty();
    let mut ev = json!({"ev": "pipe", "doc": case["doc"], "fs": case["fs"], "enc": declared, "plain_out": lossy(&plain_out), "is_empty": is_empty,
                        "body": lossy(&body)});
    let supported = enc == "gzip" || enc == "deflate" || enc == "br";
    // a list made of unknown actions only builds nothing: the chain must be inert like for an unsupported encoding
    let builds = case["fs"].as_array().unwrap().iter().any(|f| s(f, "act") != "unknown");
    if !supported || !builds {
        // the chain must be inert: whatever bytes arrive leave untouched
        let junk: Vec<u8> = compress("gzip", 6, &body);
        let o1 = run(case, &declared, &[&junk]);
        let pieces: Vec<&[u8]> = junk.chunks(3).collect();
        let o2 = run(case, &declared, &pieces);
        ev["untouched"] = json!((enc == "none" && builds) || (o1 == junk && o2 == junk));
        ev["runs"] = json!(2);
        ev["diffs"] = json!([]);
        return vec![ev];
    }
    let levels: Vec<u32> = if enc == "br" { vec![0, 5, 9] } else { vec![0, 1, 6, 9] };
    let mut diffs = Vec::new();
    let mut runs = 0u64;
    let mut note = |kind: &str, level: u32, cut: usize, out: Vec<u8>, diffs: &mut Vec<Value>| {
        let (dec, ok) = decompress(&enc, &out);
        // a complete stream of the encoding is never empty, even for an empty body
        let ok = ok && !out.is_empty();
        if dec != plain_out || !ok {
            if diffs.len() < 20 {
                diffs.push(json!({"kind": kind, "level": level, "cut": cut, "decoded": lossy(&dec), "complete": ok}));
            } else {
                diffs.push(json!({"kind": kind, "level": level, "cut": cut, "complete": ok}));
            }
        }
    };
    for level in levels {
        let comp = compress(&enc, level, &body);
        note("whole", level, 0, run(case, &declared, &[&comp]), &mut diffs);
        runs += 1;
        let step = if comp.len() > 300 { comp.len() / 150 + 1 } else { 1 };
        let mut c = 1;
        while c < comp.len() {
            note("cut", level, c, run(case, &declared, &[&comp[..c], &comp[c..]]), &mut diffs);
            runs += 1;
            c += step;
        }
        let one: Vec<&[u8]> = comp.chunks(1).collect();
        note("byte1", level, 1, run(case, &declared, &one), &mut diffs);
        let seven: Vec<&[u8]> = comp.chunks(7).collect();
        note("stride7", level, 7, run(case, &declared, &seven), &mut diffs);
        let empty: &[u8] = &[];
        let mut inter: Vec<&[u8]> = Vec::new();
        for p in comp.chunks(5) {
            inter.push(empty);
            inter.push(p);
        }
        inter.push(empty);
        note("empties", level, 5, run(case, &declared, &inter), &mut diffs);
        runs += 3;
    }
    ev["runs"] = json!(runs);
    ev["diffs"] = json!(diffs);
    ev["untouched"] = json!(true);
    vec![ev]
}
