//! URL normalisation driver (C09): a rule is built from the literal path and query of one URL of
//! the universe; requests for EVERY URL of the universe are matched against it under the given
//! configuration.  Match results, normalised strings, redirect targets and the idempotence of
//! rebuild_request are recorded.
use redirectionio::action::Action;
use redirectionio::api::Rule;
use redirectionio::http::{Header, Request};
use redirectionio::router::Router;
use redirectionio::RouterConfig;
use serde_json::{json, Value};

use crate::act::fnv;
use crate::body::concretise;

fn toks(v: &Value) -> String {
    let b: Vec<u8> = v.as_array().unwrap().iter().flat_map(|t| concretise(t.as_str().unwrap())).collect();
    String::from_utf8_lossy(&b).to_string()
}

fn raw_query(u: &Value) -> String {
    u["q"].as_array().unwrap().iter().map(|p| {
        let k = toks(&p["k"]);
        let v = toks(&p["v"]);
        if v.is_empty() && !p["eq"].as_bool().unwrap_or(false) { k } else { format!("{}={}", k, v) }
    }).collect::<Vec<String>>().join("&")
}

fn url_string(u: &Value) -> String {
    let mut s = toks(&u["path"]);
    if u["hasq"].as_bool().unwrap_or(false) {
        s.push('?');
        s.push_str(&raw_query(u));
    }
    s
}

/// inverse of the placeholder substitution on recorded strings
fn back(s: &str) -> String {
    s.replace('\u{e9}', "~e~")
}

pub fn run(case: &Value) -> Vec<Value> {
    let c = &case["cfg"];
    let config: RouterConfig = serde_json::from_value(json!({
        "ignore_marketing_query_params": c["mkt"], "ignore_path_and_query_case": c["icase"], "pass_marketing_query_params_to_target": c["pass"],
        "marketing_query_params": if c["ms"] == "none" { json!([]) } else { json!(["utm_source"]) }, "always_match_any_host": true,
    })).unwrap();
    let urls = case["u"]["urls"].as_array().unwrap();
    let ru = &urls[case["ru"].as_u64().unwrap() as usize - 1];
    let rule_json = json!({"id": "r", "rank": 0, "source": {"path": toks(&ru["path"]),
        "query": if ru["hasq"].as_bool().unwrap_or(false) { json!(raw_query(ru)) } else { Value::Null }}, "status_code": 301, "target": "/t"});
    let rule: Rule = serde_json::from_value(rule_json.clone()).expect("rule");
    let mut router = Router::<Rule>::from_config(config.clone());
    router.insert(rule);
    // twin: the same literal source in a rule that DECLARES a marker (used by its host only / by nothing)
    let mut twin_json = rule_json;
    twin_json["markers"] = json!([{"name": "sub", "regex": "[a-z]+", "transformers": []}, {"name": "unused", "regex": "[0-9]+", "transformers": []}]);
    twin_json["source"]["host"] = json!("@sub.com");
    let twin: Rule = serde_json::from_value(twin_json).expect("twin rule");
    let mut router_t = Router::<Rule>::from_config(config.clone());
    router_t.insert(twin);
    let mut mm = Vec::new();
    let rule_norm = match serde_json::to_value(router.get_route_by_id("r").unwrap().path_and_query()).unwrap() {
        Value::Object(o) => o.get("Static").and_then(|x| x.as_str()).unwrap_or("<dynamic>").to_string(),
        _ => "?".to_string(),
    };
    // a catch-all rule whose target takes its path AND query from a marker: forwarded parameters must be attached
    // with the separator the substituted target needs
    let catch_all: Rule = serde_json::from_value(json!({"id": "c", "rank": 0, "source": {"path": "/@rest"}, "markers": [{"name": "rest", "regex": ".*", "transformers": []}],
        "status_code": 301, "target": "/n/@rest"})).expect("catch-all rule");
    let mut router_c = Router::<Rule>::from_config(config.clone());
    router_c.insert(catch_all);
    let location = |routes: Vec<std::sync::Arc<redirectionio::router::Route<Rule>>>, req: &Request| -> String {
        if routes.is_empty() { return String::new(); }
        let mut a = Action::from_routes_rule(routes, req, None);
        a.filter_headers(Vec::<Header>::new(), 0, false, None).iter().find(|h| h.name == "Location").map(|h| h.value.clone()).unwrap_or_default()
    };
    let mut clocs = Vec::new();
    let mut m = Vec::new();
    let mut norms = Vec::new();
    let mut locs = Vec::new();
    let mut idem = Vec::new();
    for v in urls {
        let pq = url_string(v);
        let req = Request::from_config(&config, pq.clone(), Some("example.com".to_string()), Some("http".to_string()), None, None, None);
        let routes = router.match_request(&req);
        m.push(!routes.is_empty());
        mm.push(!router_t.match_request(&req).is_empty());
        norms.push(back(&req.path_and_query()));
        let loc = location(routes, &req);
        locs.push(back(&loc));
        clocs.push(back(&location(router_c.match_request(&req), &req)));
        // re-normalising a request changes nothing
        let r1 = router.rebuild_request(&req);
        let r2 = router.rebuild_request(&r1);
        let (s1, s2) = (serde_json::to_string(&r1).unwrap(), serde_json::to_string(&r2).unwrap());
        let m1 = !router.match_request(&r1).is_empty();
        // ... including what is forwarded to the target
        let loc2 = location(router.match_request(&r2), &r2);
        idem.push(json!([fnv(&s1) == fnv(&s2) && s1 == s2 && loc2 == loc, m1]));
    }
    vec![json!({"ev": "url", "cfg": case["cfg"], "ru": case["ru"], "rule_norm": back(&rule_norm), "m": m, "norms": norms, "locs": locs, "clocs": clocs, "idem": idem, "mm": mm})]
}
