//! Tokenizer driver (C16): every input is tokenised with the public API only; per call the token
//! type, the raw span, the unread remainder and the outcome of the accessors are recorded.  The
//! tokenisation runs in a helper thread so that a non-terminating call becomes a recorded `hang`.
use redirectionio::html::{TokenType, Tokenizer};
use serde_json::{json, Value};
use std::sync::mpsc;
use std::time::Duration;

fn ty(t: TokenType) -> &'static str {
    match t {
        TokenType::NoneToken => "None",
        TokenType::ErrorToken => "Error",
        TokenType::TextToken => "Text",
        TokenType::StartTagToken => "StartTag",
        TokenType::EndTagToken => "EndTag",
        TokenType::SelfClosingTagToken => "SelfClosingTag",
        TokenType::CommentToken => "Comment",
        TokenType::DoctypeToken => "Doctype",
    }
}

fn units(b: &[u8], hex: bool) -> Value {
    if hex {
        Value::Array(b.iter().map(|x| json!(format!("{:02x}", x))).collect())
    } else {
        Value::Array(b.iter().map(|x| json!((*x as char).to_string())).collect())
    }
}

fn tokenise(input: Vec<u8>, hex: bool) -> Vec<Value> {
    let valid = std::str::from_utf8(&input).is_ok();
    let max_calls = input.len() + 4;
    let mut t = Tokenizer::new(input);
    let mut calls = Vec::new();
    let mut errors_seen = 0;
    for _ in 0..max_calls {
        let r = t.next();
        let (tyname, failed) = match &r {
            Ok(tt) => (ty(*tt), false),
            Err(_) => ("NextFailed", true),
        };
        let raw = t.raw();
        let buffered = t.buffered();
        // accessors: must succeed whenever the bytes are valid UTF-8
        let mut acc_ok = true;
        if !failed {
            match r.as_ref().unwrap() {
                TokenType::StartTagToken | TokenType::EndTagToken | TokenType::SelfClosingTagToken => {
                    match t.tag_name() {
                        Ok((_, mut more)) => {
                            let mut guard = 0;
                            while more && guard < 64 {
                                match t.tag_attr() {
                                    Ok((_, _, m)) => more = m,
                                    Err(_) => {
                                        acc_ok = false;
                                        break;
                                    }
                                }
                                guard += 1;
                            }
                        }
                        Err(_) => acc_ok = false,
                    }
                }
                TokenType::TextToken | TokenType::CommentToken | TokenType::DoctypeToken => {
                    if t.text().is_err() {
                        acc_ok = false;
                    }
                }
                _ => {}
            }
            if t.raw_as_string().is_err() && valid {
                acc_ok = false;
            }
        }
        calls.push(json!({"t": tyname, "raw": units(&raw, hex), "buf": units(&buffered, hex), "acc": acc_ok || !valid}));
        if tyname == "Error" || failed {
            errors_seen += 1;
            if errors_seen >= 3 {
                break;
            }
        }
    }
    calls
}

pub fn run_one(input: Vec<u8>, hex: bool) -> Value {
    let (tx, rx) = mpsc::channel();
    let inp = input.clone();
    std::thread::spawn(move || {
        let r = std::panic::catch_unwind(|| tokenise(inp, hex));
        let _ = tx.send(r.map_err(|_| crate::util::LAST_PANIC.lock().unwrap().take().unwrap_or_default()));
    });
    match rx.recv_timeout(Duration::from_secs(5)) {
        Ok(Ok(calls)) => json!({"ev": "tok", "hex": hex, "inp": units(&input, hex), "calls": calls, "hang": false, "panic": false}),
        Ok(Err(msg)) => json!({"ev": "tok", "hex": hex, "inp": units(&input, hex), "calls": [], "hang": false, "panic": true, "msg": msg}),
        Err(_) => json!({"ev": "tok", "hex": hex, "inp": units(&input, hex), "calls": [], "hang": true, "panic": false}),
    }
}

/// case: {"s": [chars]} (TLC generated) or {"random": n, "len": l, "bytes": bool} (seeded random inputs)
pub fn run(case: &Value) -> Vec<Value> {
    if let Some(sv) = case.get("s") {
        // symbols are characters or (alphabet "frag") fragments with placeholders for multi-byte characters and NUL
        let frag = sv.as_array().unwrap().iter().any(|c| c.as_str().unwrap().len() > 1);
        let input: Vec<u8> = sv.as_array().unwrap().iter().flat_map(|c| {
            let x = c.as_str().unwrap();
            if x == "~0~" { vec![0u8] } else { crate::body::concretise(x) }
        }).collect();
        return vec![run_one(input, frag)];
    }
    // seeded random inputs over the markup alphabet or over arbitrary bytes
    use rand::{Rng, SeedableRng};
    let seed: u64 = std::env::var("VERIF_SEED").ok().and_then(|x| x.parse().ok()).unwrap_or(1);
    let mut rng = rand::rngs::StdRng::seed_from_u64(seed.wrapping_mul(7919) + case["salt"].as_u64().unwrap_or(0));
    let n = case["random"].as_u64().unwrap_or(0);
    let maxlen = case["len"].as_u64().unwrap_or(16) as usize;
    let bytes = case["bytes"].as_bool().unwrap_or(false);
    let alpha: Vec<u8> = case["alphabet"].as_str().unwrap_or("<>/!-=\"' asxt[]?").as_bytes().to_vec();
    let mut out = Vec::new();
    // random concatenations of grammar FRAGMENTS (markup declarations, CDATA, raw-text elements and their end tags in several
    // spellings, attributes, entities, NUL), the tail cut at a random character: reaches the states single characters hardly form
    if case.get("frags").and_then(|x| x.as_bool()).unwrap_or(false) {
        const FRAGS: [&str; 40] = ["<![CDATA[", "]]>", "<!--", "-->", "--!>", "<!-->", "<script>", "</script>", "</scrip", "</SCRIPT >", "<SCRIPT type=x>", "<!DOCTYPE html>",
            "<!doctype html PUBLIC \"a\" 'b'>", "<?php", "?>", "<a b=\"c\">", "<a b='c' d=e f>", "</a>", "</a b=c>", "</ a>", "</>", "</1>", "x", " ", "<", ">", "/", "=", "\"", "'",
            "<textarea>", "</textarea>", "<title>", "</TITLE>", "&amp;", "\u{0}", "\u{e9}", "<style>", "</style/>", "<br/>"];
        for _ in 0..n {
            let k = rng.gen_range(1..=8);
            let mut input = String::new();
            for _ in 0..k {
                input.push_str(FRAGS[rng.gen_range(0..FRAGS.len())]);
            }
            if rng.gen_bool(0.5) && !input.is_empty() {
                let mut cut = rng.gen_range(0..input.len());
                while !input.is_char_boundary(cut) { cut -= 1; }
                input.truncate(cut);
            }
            out.push(run_one(input.into_bytes(), true));
        }
        return out;
    }
    // valid UTF-8 over an alphabet of CHARACTERS, some of them multi-byte with continuation bytes that look like
    // Latin-1 white space (0x85, 0xA0): the accessors must succeed on every token
    if let Some(chars) = case.get("chars").and_then(|x| x.as_str()) {
        let cs: Vec<char> = chars.chars().collect();
        for _ in 0..n {
            let l = rng.gen_range(0..=maxlen);
            let input: String = (0..l).map(|_| cs[rng.gen_range(0..cs.len())]).collect();
            out.push(run_one(input.into_bytes(), true));
        }
        return out;
    }
    for _ in 0..n {
        let l = rng.gen_range(0..=maxlen);
        let input: Vec<u8> = (0..l).map(|_| if bytes && rng.gen_bool(0.3) { rng.gen::<u8>() } else { alpha[rng.gen_range(0..alpha.len())] }).collect();
        out.push(run_one(input, bytes));
    }
    out
}

/// C16 on lexeme-structured documents: the real token sequence (type, tag name, raw text) of a document of
/// BodyCases.tla, to be compared with the specification's Scan
pub fn run_lex(case: &Value) -> Vec<Value> {
    let body: Vec<u8> = case["doc"].as_array().unwrap().iter().flat_map(|l| l["us"].as_array().unwrap().iter().flat_map(|u| crate::body::concretise(u.as_str().unwrap())).collect::<Vec<u8>>()).collect();
    let n = body.len();
    let mut t = Tokenizer::new(body);
    let mut toks = Vec::new();
    for _ in 0..(n + 2) {
        match t.next() {
            Ok(TokenType::ErrorToken) | Err(_) => break,
            Ok(tt) => {
                let raw = crate::body::lossy(&t.raw());
                let name = match tt {
                    TokenType::StartTagToken | TokenType::EndTagToken | TokenType::SelfClosingTagToken => t.tag_name().ok().and_then(|(n, _)| n).unwrap_or_default(),
                    _ => String::new(),
                };
                toks.push(json!({"t": ty(tt), "n": crate::body::lossy(name.as_bytes()), "raw": raw}));
            }
        }
    }
    let held = crate::body::lossy(&{ let mut v = t.raw(); v.extend(t.buffered()); v });
    vec![json!({"ev": "lex", "doc": case["doc"], "toks": toks, "held": held})]
}
