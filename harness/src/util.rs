//! Shared driver plumbing: ndjson in, ndjson out, panic capture.  No oracle logic lives in
//! this crate: every module only drives the real library and records what it did.
use serde_json::{json, Value};
use std::fs::File;
use std::io::{BufRead, BufReader, BufWriter, Write};
use std::panic::{catch_unwind, AssertUnwindSafe};
use std::sync::Mutex;

pub static LAST_PANIC: Mutex<Option<String>> = Mutex::new(None);

pub fn install_panic_hook() {
    std::panic::set_hook(Box::new(|info| {
        let loc = info.location().map(|l| format!("{}:{}", l.file(), l.line())).unwrap_or_default();
        let msg = if let Some(s) = info.payload().downcast_ref::<&str>() {
            s.to_string()
        } else if let Some(s) = info.payload().downcast_ref::<String>() {
            s.clone()
        } else {
            "?".to_string()
        };
        *LAST_PANIC.lock().unwrap() = Some(format!("{} @ {}", msg, loc));
    }));
}

/// Run `f`; a panic in the code under test is data, not a crash.
pub fn guarded<T>(f: impl FnOnce() -> T) -> Result<T, String> {
    match catch_unwind(AssertUnwindSafe(f)) {
        Ok(v) => Ok(v),
        Err(_) => Err(LAST_PANIC.lock().unwrap().take().unwrap_or_else(|| "panic".to_string())),
    }
}

/// the TLC Json module cannot read null: nulls are written as the string "null"
pub fn denull(v: &mut Value) {
    match v {
        Value::Null => *v = Value::String("null".to_string()),
        Value::Array(a) => a.iter_mut().for_each(denull),
        Value::Object(o) => o.values_mut().for_each(denull),
        _ => {}
    }
}

pub fn read_cases(path: &str) -> Vec<Value> {
    let f = File::open(path).unwrap_or_else(|e| {
        eprintln!("harness: cannot open {}: {}", path, e);
        std::process::exit(2)
    });
    let mut out = Vec::new();
    for line in BufReader::new(f).lines() {
        let line = line.unwrap();
        if line.trim().is_empty() {
            continue;
        }
        match serde_json::from_str::<Value>(&line) {
            Ok(v) => out.push(v),
            Err(e) => {
                eprintln!("harness: bad case line: {}: {}", e, line);
                std::process::exit(2)
            }
        }
    }
    out
}

/// Map every case to a list of events, in parallel, keeping the order of the cases.
/// A panic escaping `f` becomes a `panic` event carrying the case.
pub fn run_cases(inp: &str, outp: &str, f: impl Fn(&Value) -> Vec<Value> + Sync) {
    let mut cases = read_cases(inp);
    // constants shared by all cases of a run (printed once by TLC as UNIVERSE)
    if let Ok(up) = std::env::var("HARNESS_UNIVERSE") {
        let u: Value = serde_json::from_str(&std::fs::read_to_string(&up).expect("universe file")).expect("universe json");
        for c in cases.iter_mut() {
            if let Some(o) = c.as_object_mut() {
                o.insert("u".to_string(), u.clone());
            }
        }
    }
    let n = cases.len();
    let threads = std::env::var("HARNESS_THREADS").ok().and_then(|s| s.parse().ok()).unwrap_or(8usize).max(1);
    let chunk = (n + threads - 1) / threads.max(1);
    let mut results: Vec<Vec<String>> = Vec::new();
    if n > 0 {
        std::thread::scope(|s| {
            let mut hs = Vec::new();
            for (pi, part) in cases.chunks(chunk.max(1)).enumerate() {
                let f = &f;
                let base = pi * chunk.max(1);
                hs.push(s.spawn(move || {
                    let mut lines = Vec::new();
                    for (ci, c) in part.iter().enumerate() {
                        let mut evs = match catch_unwind(AssertUnwindSafe(|| f(c))) {
                            Ok(e) => e,
                            Err(_) => {
                                let msg = LAST_PANIC.lock().unwrap().take().unwrap_or_default();
                                vec![json!({"ev": "panic", "case": c, "msg": msg})]
                            }
                        };
                        for e in evs.iter_mut() {
                            denull(e);
                            if let Some(o) = e.as_object_mut() {
                                o.insert("cid".to_string(), json!(base + ci));
                            }
                            lines.push(serde_json::to_string(&e).unwrap());
                        }
                    }
                    lines
                }));
            }
            for h in hs {
                results.push(h.join().unwrap());
            }
        });
    }
    let mut w = BufWriter::new(File::create(outp).unwrap());
    let mut count = 0usize;
    for r in results {
        for l in r {
            w.write_all(l.as_bytes()).unwrap();
            w.write_all(b"\n").unwrap();
            count += 1;
        }
    }
    w.flush().unwrap();
    eprintln!("harness: {} cases -> {} events", n, count);
}

pub fn s(v: &Value, k: &str) -> String {
    v.get(k).and_then(|x| x.as_str()).unwrap_or("").to_string()
}
