//! Totality driver (C07): every call generated from Totality.tla is concretised (table below) and
//! executed on the real library in a child process; the parent records an abort (stack overflow)
//! or a timeout (non-termination) as data.  Events: call {entry, dims} then return | panic.
use redirectionio::action::{Action, TraceAction};
use redirectionio::api::{
    Example, ExplainRequestInput, ExplainRequestOutput, ExplainRequestProjectInput, ImpactInput, ImpactOutput, ImpactProjectInput, Log, Rule, RuleChangeSet, TestExamplesInput,
    TestExamplesOutput, TestExamplesProjectInput, UnitIdsInput, UnitIdsOutput, UnitIdsProjectInput,
};
use redirectionio::filter::FilterBodyAction;
use redirectionio::html::{TokenType, Tokenizer};
use redirectionio::http::{Header, Request};
use redirectionio::router::Router;
use redirectionio::RouterConfig;
use serde_json::{json, Value};
use std::collections::HashSet;
use std::io::Write;
use std::sync::Arc;

fn cls<'a>(call: &'a Value, dim: &str) -> &'a str {
    for d in call["dims"].as_array().unwrap() {
        if d[0].as_str() == Some(dim) {
            return d[1].as_str().unwrap();
        }
    }
    ""
}

pub fn body_of(c: &str) -> Vec<u8> {
    match c {
        "empty" => vec![],
        "lone_lt" => b"<".to_vec(),
        "truncated_tag" => b"<html><body class=\"a".to_vec(),
        "truncated_comment" => b"<html><!-- <body> ".to_vec(),
        "invalid_utf8" => b"<html><body>\xff\xfe<p>\xc3</p></body></html>".to_vec(),
        "script_1mb" => {
            let mut v = b"<html><body><script>".to_vec();
            v.extend(std::iter::repeat(b'x').take(1 << 20));
            v
        }
        "nested_10k" => "<div>".repeat(10_000).into_bytes(),
        "nul_bytes" => b"<html>\0<bo\0dy>\0</body></html>".to_vec(),
        "only_end_tags" => b"</p></div></html></body>".to_vec(),
        "cdata" => b"<![CDATA[ <body> ]]><body><![CDATA[".to_vec(),
        "doctype_only" => b"<!DOCTYPE".to_vec(),
        // a Latin-1 document: lone bytes of the UTF-8 continuation range arrive in chunks of their own (the drivers feed byte by byte too)
        "latin1_small_chunks" => b"<html><body>Copyright \xa9 2024 caf\xe9 \x80\x80\x80</body></html>".to_vec(),
        _ => b"<!DOCTYPE html><html><head><title>t</title></head><body class=\"x\"><p>hi</p></body></html>".to_vec(),
    }
}

fn transformer(c: &str) -> Value {
    let sl = |f: &str, t: &str| json!({"type": "slice", "options": {"from": f, "to": t}});
    match c {
        "slice_0_1" => sl("0", "1"),
        "slice_1_3" => sl("1", "3"),
        "slice_3_1" => sl("3", "1"),
        "slice_9_x" => sl("9", "x"),
        "slice_x_9" => sl("x", "9"),
        "slice_no_options" => json!({"type": "slice", "options": null}),
        "slice_no_to" => json!({"type": "slice", "options": {"from": "1"}}),
        "unknown_type" => json!({"type": "rot13", "options": null}),
        "null_type" => json!({"type": null, "options": null}),
        "replace_no_with" => json!({"type": "replace", "options": {"something": "a"}}),
        "replace_empty" => json!({"type": "replace", "options": {"something": "", "with": "zz"}}),
        // (the ordinary transformer of a placeholder-shaped capture keeps its letters as they are)
        "keep_case" => json!({"type": "lowercase", "options": null}),
        _ => json!({"type": "uppercase", "options": null}),
    }
}

fn rule_for(call: &Value) -> Value {
    let long = "a".repeat(10_000);
    let marker_regex = match cls(call, "marker_regex") {
        "empty" => "", "open_paren" => "(", "open_class" => "[a-", "anchors" => "^a$", "named_group" => "(?P<x>a)", "optional_named_group" => "(?P<x>zz)?[a-z\u{e9}\u{1F600}]*", "alternation_named_groups" => "(?P<x>zzz)|(?P<y>[a-z]+)|(?P<z>.*)",
        "nested_optional_group" => "(?:(?P<x>q)(?P<y>r)?)?[^/]*", "dot_star" => ".*",
        "huge_repeat" => "a{99999}{99999}", "backref" => "(a)\\1", "unicode_class" => "\\p{Greek}+", _ => "[^/.]+",
    };
    let path = match cls(call, "path") {
        "empty" => "".to_string(), "unicode" => "/caf\u{e9}/\u{4e2d}".to_string(), "percent_alone" => "/%".to_string(), "percent_zz" => "/%zz".to_string(),
        "long_10k" => format!("/{}", long), "space" => "/a b".to_string(), "unknown_marker" => "/x/@nope".to_string(), "only_marker" => "@m".to_string(),
        "regex_chars" => "/a(b[c*+?{".to_string(), _ => "/x/@m".to_string(),
    };
    let query = match cls(call, "query") {
        "bad_escape" => json!("a=%zz&&=&b"), "percent_alone" => json!("%"), "long_10k" => json!(format!("k={}", long)), "only_amp" => json!("&&&"), "equals_only" => json!("==="), _ => Value::Null,
    };
    let target = match cls(call, "target") {
        "relative" => json!("/t/@m"), "no_slash" => json!("t"), "empty" => json!(""), "mailto" => json!("mailto:x@y.z"), "bad_ipv6" => json!("http://[::1"), "scheme_relative" => json!("//other.org/x"),
        "unknown_marker" => json!("/t/@nope/@"), "unicode" => json!("/caf\u{e9}"), "self_loop" => json!("/x/@m"), _ => json!("/t/@m/@h"),
    };
    let header_trigger = match cls(call, "header_trigger") {
        "unknown_kind" => json!([{"name": "X-K", "type": "sounds_like", "value": "v"}]), "equals_null_value" => json!([{"name": "X-K", "type": "is_equals", "value": null}]),
        "regex_invalid" => json!([{"name": "X-K", "type": "match_regex", "value": "(@m"}]), "regex_no_marker" => json!([{"name": "X-K", "type": "match_regex", "value": "^(ES|FR)$"}]),
        "name_empty" => json!([{"name": "", "type": "is_defined", "value": null}]), "name_unicode" => json!([{"name": "X-\u{e9}", "type": "contains", "value": "\u{e9}"}]), _ => Value::Null,
    };
    let ips = match cls(call, "ips") {
        "valid" => json!([{"in_range": "10.0.0.0/8"}]), "prefix_33" => json!([{"in_range": "10.0.0.0/33"}]), "garbage" => json!([{"not_in_range": "garbage"}, {"in_range": ""}]),
        "v6_all" => json!([{"in_range": "::/0"}]), "host_addr" => json!([{"in_range": "10.0.0.1"}]), "empty_list" => json!([]), _ => Value::Null,
    };
    let datetime = match cls(call, "datetime") {
        "open_end" => json!([["2024-03-10T12:00:00Z", null]]), "garbage" => json!([["garbage", "x"]]), "both_null" => json!([[null, null]]),
        "out_of_range" => json!([["2024-13-40T99:99:99Z", "9999-12-31T23:59:59Z"]]), "reversed" => json!([["2025-01-01T00:00:00Z", "2024-01-01T00:00:00Z"]]), _ => Value::Null,
    };
    let time = match cls(call, "time") {
        "hour_25" => json!([["25:00:00", "26:00:00"]]), "short" => json!([["12:00", "13"]]), "garbage" => json!([["noon", ""]]), "both_null" => json!([[null, null]]), _ => Value::Null,
    };
    let weekdays = match cls(call, "weekdays") {
        "valid" => json!(["Sun", "monday"]), "funday" => json!(["Funday"]), "empty_string" => json!([""]), "empty_list" => json!([]), _ => Value::Null,
    };
    let body_filter = match cls(call, "body_filter") {
        "empty_tree" => json!([{"action": "append_child", "value": "<i>v</i>", "element_tree": [], "css_selector": null, "id": null, "target_hash": null}]),
        "unknown_action" => json!([{"action": "wrap", "value": "<i>v</i>", "element_tree": ["html"], "css_selector": null, "id": null, "target_hash": null}]),
        "bad_selector" => json!([{"action": "append_child", "value": "<i>v</i>", "element_tree": ["html", "body"], "css_selector": ":::[", "id": null, "target_hash": null},
                                 {"action": "replace", "value": "<i>v</i>", "element_tree": ["html", "body", "p"], "css_selector": ">>", "id": null, "target_hash": null}]),
        "huge_value" => json!([{"action": "prepend_child", "value": "v".repeat(200_000), "element_tree": ["html", "body"], "css_selector": null, "id": null, "target_hash": null}]),
        "text_replace_empty" => json!([{"action": "replace_text", "content": "", "id": null, "target_hash": null}, {"action": "prepend_text", "content": "\u{e9}", "id": null, "target_hash": null}]),
        "deep_tree" => json!([{"action": "replace", "value": "x", "element_tree": std::iter::repeat("div").take(2000).collect::<Vec<&str>>(), "css_selector": "div", "id": null, "target_hash": null}]),
        _ => json!([{"action": "append_child", "value": "<i>@m</i>", "element_tree": ["html", "body"], "css_selector": "i.none", "id": "b1", "target_hash": null},
                    {"action": "replace", "value": "<p>r</p>", "element_tree": ["html", "body", "p"], "css_selector": null, "id": "b2", "target_hash": null}]),
    };
    let header_filter = match cls(call, "header_filter") {
        "unknown_action" => json!([{"action": "rot13", "header": "X-A", "value": "v", "id": null, "target_hash": null}]),
        "bad_name" => json!([{"action": "add", "header": "bad name\r\n", "value": "v\r\nX: y", "id": null, "target_hash": null}]),
        "empty_name" => json!([{"action": "override", "header": "", "value": "", "id": null, "target_hash": null}]),
        "huge_value" => json!([{"action": "add", "header": "X-A", "value": "v".repeat(200_000), "id": null, "target_hash": null}]),
        _ => json!([{"action": "add", "header": "X-M", "value": "@m", "id": "h1", "target_hash": "t1"}]),
    };
    let (status, on_codes, sampling, rank) = match cls(call, "codes") {
        "status_0" => (json!(0), Value::Null, Value::Null, 0), "status_65535" => (json!(65535), Value::Null, Value::Null, 0), "on_codes_65535" => (json!(302), json!([65535, 0]), Value::Null, 0),
        "sampling_huge" => (json!(302), Value::Null, json!(4_000_000_000u64), 0), "rank_65535" => (json!(302), Value::Null, Value::Null, 65535), _ => (json!(302), Value::Null, Value::Null, 1),
    };
    json!({
        "id": "r", "rank": rank,
        "markers": [{"name": "m", "regex": marker_regex, "transformers": [transformer(if cls(call, "transformer").is_empty() && cls(call, "capture").contains("placeholder") { "keep_case" } else { cls(call, "transformer") })]}, {"name": "h", "regex": "[^.]+", "transformers": [transformer(if cls(call, "transformer").is_empty() && cls(call, "capture").contains("placeholder") { "keep_case" } else { cls(call, "transformer") })]}],
        "source": {"host": sibling_hosts(cls(call, "sibling_rule")).map(|x| x.0).unwrap_or("@h.example.com"), "path": path, "query": query, "headers": header_trigger, "ips": ips, "datetime": datetime, "time": time, "weekdays": weekdays,
                   "response_status_codes": on_codes, "sampling": sampling},
        "status_code": status, "target": target, "header_filters": header_filter, "body_filters": body_filter,
        "variables": [{"name": "m", "type": {"marker": "m"}}, {"name": "h", "type": {"marker": "h"}}, {"name": "host", "type": "request_host", "transformers": [transformer(if cls(call, "transformer").is_empty() && cls(call, "capture").contains("placeholder") { "keep_case" } else { cls(call, "transformer") })]}, {"name": "hd", "type": {"request_header": {"name": "X-K", "default": null}}}],
    })
}

/// (host of the main rule, host and path of a second rule loaded next to it) for the classes of the dimension "sibling_rule":
/// two dynamic patterns that share a prefix end up in one node of the regex tree, which cuts the prefix character by character
fn sibling_hosts(c: &str) -> Option<(&'static str, &'static str, &'static str)> {
    match c {
        "host_cyrillic_prefix" => Some(("\u{43c}\u{438}\u{440}.shop.@h.example.com", "\u{43c}\u{438}\u{440}.blog.@h.example.com", "/x/@m")),
        "host_cjk_prefix" => Some(("\u{65e5}\u{672c}.@h.example.com", "\u{65e5}\u{672c}\u{8a9e}.@h.example.com", "/x/@m")),
        "host_2byte_prefix" => Some(("\u{e9}a.@h.example.com", "\u{e9}\u{e9}.@h.example.com", "/x/@m")),
        "host_emoji_prefix" => Some(("\u{1F600}-a.@h.example.com", "\u{1F600}-b.@h.example.com", "/x/@m")),
        "path_unicode_prefix" => Some(("@h.example.com", "@h.example.com", "/x/\u{e9}\u{4e2d}/@m")),
        "same_source" => Some(("@h.example.com", "@h.example.com", "/x/@m")),
        _ => None,
    }
}

fn capture_value(c: &str) -> String {
    match c { "two_byte" => "\u{e9}\u{e9}\u{e9}".to_string(), "four_byte" => "\u{1F600}\u{1F600}".to_string(), "empty" => "".to_string(), "long" => "z".repeat(5000),
        // a captured value that spells the placeholder of its own marker ("@m" in the path, "@h" in the host), or of the other one
        "own_placeholder" => "x-@m-@h-y".to_string(), "other_placeholder" => "@hh@mm".to_string(), _ => "abcdef".to_string() }
}

fn request_for(call: &Value, config: &RouterConfig) -> Request {
    let cap = capture_value(cls(call, "capture"));
    let long = "a".repeat(10_000);
    let path = match cls(call, "request_path") {
        "empty" => "".to_string(), "no_slash" => "x".to_string(), "percent_alone" => "/%".to_string(), "bad_query_escape" => "/x/a?%zz=%&&=".to_string(), "unicode_raw" => "/x/caf\u{e9}?\u{e9}=\u{e9}".to_string(),
        "long_10k" => format!("/x/{}", long), "question_only" => "?".to_string(), "fragment" => "/x/a#frag?x".to_string(), _ => format!("/x/{}", if cap.is_empty() { "a".to_string() } else { cap.clone() }),
    };
    let host = match cls(call, "request_host") {
        "none" => None, "empty" => Some("".to_string()), "upper" => Some("ABC.EXAMPLE.COM".to_string()), "unicode" => Some("\u{e9}\u{e9}.example.com".to_string()), "with_port" => Some("abc.example.com:8080".to_string()),
        // ('@' cannot be part of a host name: placeholder-shaped captures travel in the path only)
        _ => Some(format!("{}.example.com", if cap.is_empty() || cap.contains('@') { "abc".to_string() } else { cap })),
    };
    // the host the main rule of a sibling class is written for
    let host = match sibling_hosts(cls(call, "sibling_rule")) { Some((h, _, _)) => host.map(|x| h.replace("@h.example.com", &x)), None => host };
    let misc = cls(call, "request_misc");
    let mut req = Request::from_config(config, path, host, if misc == "no_scheme" { None } else if misc == "ftp_scheme" { Some("ftp".to_string()) } else { Some("http".to_string()) },
        if misc == "empty_method" { Some("".to_string()) } else if misc == "lower_method" { Some("get".to_string()) } else { Some("GET".to_string()) },
        if misc == "v6_addr" { Some("2001:db8::1".parse().unwrap()) } else { Some("10.1.2.3".parse().unwrap()) }, None);
    if misc == "no_date" { req.created_at = None; }
    match misc {
        "headers_5000" => for i in 0..5000 { req.add_header(format!("X-{}", i), "v".to_string(), false); },
        "header_dup" => for _ in 0..50 { req.add_header("X-K".to_string(), "v".to_string(), false); },
        "header_empty_name" => req.add_header("".to_string(), "".to_string(), true),
        _ => req.add_header("X-K".to_string(), "k-ab".to_string(), false),
    }
    req
}

fn response_for(call: &Value) -> (u16, Vec<Header>) {
    let hd = |n: &str, v: &str| Header { name: n.to_string(), value: v.to_string() };
    match cls(call, "response") {
        "code_0" => (0, vec![hd("Content-Type", "text/html")]), "code_65535" => (65535, vec![hd("Content-Type", "text/html")]), "headers_empty" => (200, vec![]),
        "headers_5000" => (200, (0..5000).map(|i| hd(&format!("X-{}", i), "v")).collect()), "content_type_weird" => (200, vec![hd("content-TYPE", "TEXT/HTML;;;charset"), hd("Content-Type", "")]),
        "gzip_garbage" => (200, vec![hd("Content-Type", "text/html"), hd("Content-Encoding", "gzip")]), "br_garbage" => (200, vec![hd("Content-Type", "text/html"), hd("Content-Encoding", "br")]),
        "deflate_garbage" => (200, vec![hd("Content-Type", "text/html"), hd("Content-Encoding", "deflate")]), "encoding_unknown" => (200, vec![hd("Content-Type", "text/html"), hd("Content-Encoding", "zstd, gzip")]),
        _ => (200, vec![hd("Content-Type", "text/html; charset=utf-8")]),
    }
}

fn pipeline(call: &Value) {
    let config = RouterConfig::default();
    let rule_json = rule_for(call);
    // rule loading: from the JSON text, the way the agent receives it
    let rule = match Rule::from_json(&rule_json.to_string()) { Some(r) => r, None => return };
    let mut router = Router::<Rule>::from_config(config.clone());
    router.insert(rule.clone());
    if let Some((_, h2, p2)) = sibling_hosts(cls(call, "sibling_rule")) {
        let mut second = rule_json.clone();
        second["id"] = json!("r2");
        second["source"]["host"] = json!(h2);
        second["source"]["path"] = json!(p2);
        if let Some(r2) = Rule::from_json(&second.to_string()) {
            router.insert(r2.clone());
            // and once more in the other order, with a removal in between
            let mut other = Router::<Rule>::from_config(config.clone());
            other.insert(r2);
            other.insert(rule.clone());
            other.remove("r2");
            other.cache(None);
        }
    }
    router.cache(None);
    let req = request_for(call, &config);
    let req = router.rebuild_request(&req);
    let routes = router.match_request(&req);
    let _ = router.get_route(&req);
    let traces = router.trace_request(&req);
    let _ = serde_json::to_string(&router.get_trace(&req));
    let _ = TraceAction::from_trace_rules(&traces, &req);
    if std::env::var("TOTAL_DEBUG").is_ok() {
        eprintln!("debug: path={:?} host={:?} routes={} rule={}", req.path_and_query(), req.host, routes.len(), rule_json);
    }
    let mut action = Action::from_routes_rule(routes, &req, None);
    let (code, headers) = response_for(call);
    let _ = action.get_status_code(0, None);
    let _ = action.get_status_code(code, None);
    let out_headers = action.filter_headers(headers.clone(), code, true, None);
    if std::env::var("TOTAL_DEBUG").is_ok() {
        eprintln!("debug: out headers {:?}", out_headers.iter().map(|h| format!("{}: {}", h.name, h.value)).collect::<Vec<String>>());
    }
    let _ = redirectionio::http::Header::create_header_map(out_headers);
    let body = body_of(cls(call, "body"));
    if let Some(mut f) = action.create_filter_body(code, &headers) {
        let mut out = Vec::new();
        for chunk in body.chunks(4096) {
            out.extend(f.filter(chunk.to_vec(), None));
        }
        out.extend(f.end(None));
        // a second filter fed byte by byte on a prefix
        if let Some(mut g) = action.create_filter_body(code, &headers) {
            for b in body.iter().take(300) { let _ = g.filter(vec![*b], None); }
            let _ = g.end(None);
        }
    }
    let _ = action.should_log_request(true, code, None);
    let ser = serde_json::to_string(&action).unwrap();
    let _ = serde_json::from_str::<Action>(&ser);
    let _ = serde_json::to_string(&req);
    let _ = Log::from_proxy(&req, code, &headers, Some(&action), "proxy", 1, "10.0.0.1");
    router.remove("r");
    router.remove("r2");
}

fn analysis(call: &Value) {
    let config = RouterConfig::default();
    let target = match cls(call, "target") { "relative" => "/b", "mailto" => "mailto:x@y.z", "bad_ipv6" => "http://[::1", "self_loop" => "/a", "scheme_relative" => "//other.org/x", "unicode" => "/caf\u{e9}", "empty" => "", _ => "http://example.com/b" };
    let url = match cls(call, "example_url") { "garbage" => "::::", "empty" => "", "relative" => "/a", "unicode" => "http://example.com/caf\u{e9}?\u{e9}", "no_host" => "http:///a", "with_fragment" => "http://example.com/a#x", _ => "http://example.com/a" };
    let misc = cls(call, "example_misc");
    let example: Example = serde_json::from_value(json!({"url": url, "method": if misc == "method_weird" { json!("G E T\r\n") } else { Value::Null },
        "headers": if misc == "headers_many" { json!((0..2000).map(|i| json!({"name": format!("X-{}", i), "value": "v"})).collect::<Vec<Value>>()) } else { Value::Null },
        "datetime": if misc == "datetime_garbage" { json!("yesterday") } else { Value::Null }, "ip_address": if misc == "ip_garbage" { json!("not-an-ip") } else if misc == "ip_v6" { json!("::1") } else { Value::Null },
        "response_status_code": if misc == "code_65535" { json!(65535) } else { Value::Null }, "must_match": true, "unit_ids_applied": ["u1"]})).unwrap();
    let mk = |id: &str, path: &str, target: &str| -> Rule { serde_json::from_value(json!({"id": id, "rank": 0, "source": {"path": path}, "status_code": 301, "target": target, "redirect_unit_id": "u1", "examples": [example.clone()]})).unwrap() };
    let rules = vec![mk("a", "/a", target), mk("b", "/b", "/a")];
    let max_hops: u8 = match cls(call, "max_hops") { "hops_0" => 0, "hops_1" => 1, "hops_255" => 255, _ => 5 };
    let domains: Vec<String> = match cls(call, "domains") { "project" => vec!["example.com".to_string()], "other" => vec!["elsewhere.org".to_string()], "empty_string" => vec!["".to_string()], _ => vec![] };
    let cs = match cls(call, "change_set") {
        "delete_unknown" => RuleChangeSet { added: vec![], updated: vec![], deleted: ["zzz".to_string()].into_iter().collect::<HashSet<String>>() },
        "update_unknown" => RuleChangeSet { added: vec![], updated: vec![mk("zzz", "/z", "/a")], deleted: HashSet::new() },
        "add_existing" => RuleChangeSet { added: vec![mk("a", "/a2", "/a")], updated: vec![], deleted: HashSet::new() },
        "all_empty" => RuleChangeSet::default(),
        _ => RuleChangeSet { added: vec![mk("c", "/c", "/a")], updated: vec![mk("b", "/b", "/c")], deleted: HashSet::new() },
    };
    let mut base = Router::<Rule>::from_config(config.clone());
    for r in &rules { base.insert(r.clone()); }
    let base = Arc::new(base);
    let _ = ExplainRequestOutput::create_result_without_project(ExplainRequestInput { router_config: config.clone(), example: example.clone(), rules: rules.clone(), max_hops, project_domains: domains.clone() }).map(|o| serde_json::to_string(&o));
    let _ = ExplainRequestOutput::create_result_from_project(ExplainRequestProjectInput { example: example.clone(), change_set: cs.clone(), max_hops, project_domains: domains.clone() }, base.clone()).map(|o| serde_json::to_string(&o));
    let _ = serde_json::to_string(&TestExamplesOutput::create_result_without_project(TestExamplesInput { router_config: config.clone(), rules: rules.clone(), max_hops, project_domains: domains.clone() }));
    let _ = serde_json::to_string(&TestExamplesOutput::from_project(TestExamplesProjectInput { change_set: cs.clone(), max_hops, project_domains: domains.clone() }, base.clone()));
    let _ = serde_json::to_string(&UnitIdsOutput::create_result_without_project(UnitIdsInput { router_config: config.clone(), rules: rules.clone() }));
    let _ = serde_json::to_string(&UnitIdsOutput::create_result_from_project(UnitIdsProjectInput { change_set: cs.clone() }, base.clone()));
    for action in ["add", "update", "delete", "bogus"] {
        let _ = serde_json::to_string(&ImpactOutput::create_result(ImpactInput { router_config: config.clone(), max_hops, with_redirection_loop: true, domains: domains.clone(), rule: rules[0].clone(), action: action.to_string(), rules: rules.clone() }));
        let _ = serde_json::to_string(&ImpactOutput::from_impact_project(ImpactProjectInput { max_hops, with_redirection_loop: true, domains: domains.clone(), rule: rules[0].clone(), action: action.to_string(), change_set: cs.clone() }, base.clone()));
    }
}

fn log_entry(call: &Value) {
    let config = RouterConfig::default();
    let mut req = Request::from_config(&config, "/a?b=1".to_string(), Some("example.com".to_string()), Some("http".to_string()), Some("GET".to_string()), None, None);
    match cls(call, "forwarded") {
        "garbage" => { req.add_header("X-Forwarded-For".to_string(), ",,,;;; not an ip, [::1".to_string(), false); req.add_header("Forwarded".to_string(), "for=;by=\"".to_string(), false); }
        "many" => for i in 0..500 { req.add_header("X-Forwarded-For".to_string(), format!("10.0.{}.{}", i / 250, i % 250), false); },
        "v6" => req.add_header("Forwarded".to_string(), "for=\"[2001:db8::1]:4711\";proto=https".to_string(), false),
        "empty" => req.add_header("X-Forwarded-For".to_string(), "".to_string(), false),
        "obfuscated" => req.add_header("Forwarded".to_string(), "for=_hidden, for=unknown".to_string(), false),
        "lone_quote" => req.add_header("Forwarded".to_string(), "for=\"".to_string(), false),
        "empty_quotes" => req.add_header("Forwarded".to_string(), "for=\"\"".to_string(), false),
        "quote_proto" => req.add_header("Forwarded".to_string(), "for=\";proto=https".to_string(), false),
        "bracket_only" => req.add_header("Forwarded".to_string(), "for=\"[\", for=[, for=]".to_string(), false),
        "port_only" => req.add_header("Forwarded".to_string(), "for=:80, for=\":\"".to_string(), false),
        "eq_only" => req.add_header("Forwarded".to_string(), "=;==;for==;for".to_string(), false),
        "port_overflow" => req.add_header("Forwarded".to_string(), "for=1.2.3.4:99999999999, for=\"[::1]:-1\"".to_string(), false),
        "empty_brackets" => req.add_header("Forwarded".to_string(), "for=\"[]:80\", for=[]".to_string(), false),
        "xff_ports" => req.add_header("X-Forwarded-For".to_string(), "1.2.3.4:80, [::1]:80, [::1, 1.2.3.4:, :".to_string(), false),
        "for_upper" => req.add_header("FORWARDED".to_string(), "FOR=\"1.2.3.4\";By=x".to_string(), false),
        _ => {}
    }
    let misc = cls(call, "misc");
    let headers: Vec<Header> = if misc == "headers_5000" { (0..5000).map(|i| Header { name: format!("X-{}", i), value: "v".to_string() }).collect() } else { vec![Header { name: "Content-Type".to_string(), value: "text/html".to_string() }] };
    let action = Action::default();
    let code = match misc { "code_0" => 0, "code_65535" => 65535, _ => 200 };
    let log = Log::from_proxy(&req, code, &headers, if misc == "no_action" { None } else { Some(&action) }, "proxy/1.0", if misc == "time_max" { u128::MAX } else { 1_700_000_000_000 }, "not an ip");
    let _ = serde_json::to_string(&log);
}

fn tokenizer(call: &Value) {
    let body = body_of(cls(call, "body"));
    let n = body.len();
    let mut t = Tokenizer::new(body);
    for _ in 0..(n + 4) {
        match t.next() {
            Ok(TokenType::ErrorToken) | Err(_) => break,
            Ok(TokenType::StartTagToken) | Ok(TokenType::EndTagToken) | Ok(TokenType::SelfClosingTagToken) => {
                if let Ok((_, mut more)) = t.tag_name() {
                    let mut g = 0;
                    while more && g < 1000 { match t.tag_attr() { Ok((_, _, m)) => more = m, Err(_) => break } g += 1; }
                }
            }
            Ok(_) => { let _ = t.text(); }
        }
    }
    // and the chain with a filter that follows the whole document
    let filters = crate::body::filters_of(&json!([{"act": "append", "path": ["html", "body"], "sel": "x", "value": "V"}, {"act": "replace", "path": ["html", "body", "p"], "sel": "none", "value": "R"}]));
    let mut f = FilterBodyAction::new(filters, &crate::body::html_headers());
    let b2 = body_of(cls(call, "body"));
    for c in b2.chunks(1000) { let _ = f.filter(c.to_vec(), None); }
    let _ = f.end(None);
}

pub fn child(inp: &str, outp: &str, start: usize) {
    let cases = crate::util::read_cases(inp);
    let mut f = std::fs::OpenOptions::new().create(true).append(true).open(outp).unwrap();
    for (i, c) in cases.iter().enumerate().skip(start) {
        std::fs::write(format!("{}.progress", outp), format!("{}", i)).unwrap();
        writeln!(f, "{}", json!({"ev": "call", "cid": i, "entry": c["entry"], "dims": c["dims"]})).unwrap();
        f.flush().unwrap();
        let r = crate::util::guarded(|| match c["entry"].as_str().unwrap_or("") {
            "pipeline" => pipeline(c),
            "analysis" => analysis(c),
            "log" => log_entry(c),
            "tokenizer" => tokenizer(c),
            _ => {}
        });
        match r {
            Ok(()) => writeln!(f, "{}", json!({"ev": "return", "cid": i})).unwrap(),
            Err(msg) => writeln!(f, "{}", json!({"ev": "panic", "cid": i, "msg": msg})).unwrap(),
        }
        f.flush().unwrap();
    }
    std::fs::write(format!("{}.progress", outp), "done").unwrap();
}

/// parent: restart the child after an abort or a hang, recording it as data
pub fn parent(inp: &str, outp: &str) {
    let _ = std::fs::remove_file(outp);
    let exe = std::env::current_exe().unwrap();
    let mut start = 0usize;
    let limit = std::time::Duration::from_secs(std::env::var("TOTAL_TIMEOUT").ok().and_then(|x| x.parse().ok()).unwrap_or(30));
    for _ in 0..26 {
        // the watchdog is generous until the child has loaded its cases and reported its first case
        let _ = std::fs::remove_file(format!("{}.progress", outp));
        let mut ch = std::process::Command::new(&exe).args(["total_child", inp, outp, &start.to_string()]).spawn().expect("spawn child");
        let mut last = (String::new(), std::time::Instant::now());
        let status = loop {
            if let Some(st) = ch.try_wait().unwrap() { break Some(st); }
            std::thread::sleep(std::time::Duration::from_millis(100));
            let prog = std::fs::read_to_string(format!("{}.progress", outp)).unwrap_or_default();
            if prog != last.0 { last = (prog, std::time::Instant::now()); }
            if last.1.elapsed() > (if last.0.is_empty() { limit * 10 } else { limit }) { let _ = ch.kill(); let _ = ch.wait(); break None; }
        };
        let prog = std::fs::read_to_string(format!("{}.progress", outp)).unwrap_or_default();
        if status.map(|s| s.success()).unwrap_or(false) && prog == "done" { break; }
        let at: usize = prog.trim().parse().unwrap_or(start);
        let mut f = std::fs::OpenOptions::new().append(true).open(outp).unwrap();
        writeln!(f, "{}", json!({"ev": if status.is_none() { "timeout" } else { "abort" }, "cid": at})).unwrap();
        start = at + 1;
    }
    let _ = std::fs::remove_file(format!("{}.progress", outp));
}

/// Log::from_proxy on inputs generated from Log.tla: the header lists are rendered to header lines and the
/// serialised log is recorded (spec growth beyond the listed properties; judged as drift only)
pub fn run_log(case: &Value) -> Vec<Value> {
    let render = |h: &Value| -> (String, String) {
        let items = h["items"].as_array().unwrap();
        let v = match h["kind"].as_str().unwrap_or("plain") {
            "xff" => items.iter().map(|x| x[1].as_str().unwrap().to_string()).collect::<Vec<String>>().join(","),
            "fwd" => items.iter().enumerate().map(|(i, p)| format!("{}{}={}", if i == 0 { "" } else if i % 2 == 1 { ";" } else { ", " }, p[0].as_str().unwrap(), p[1].as_str().unwrap())).collect::<String>(),
            _ => items[0][1].as_str().unwrap().to_string(),
        };
        (h["name"].as_str().unwrap().to_string(), v)
    };
    let config = RouterConfig::default();
    let mut req = Request::from_config(&config, "/a?b=1".to_string(), Some("example.com".to_string()), Some("http".to_string()), Some("GET".to_string()), None, None);
    for h in case["req"].as_array().unwrap() {
        let (n, v) = render(h);
        req.add_header(n, v, false);
    }
    let resp: Vec<Header> = case["resp"].as_array().unwrap().iter().map(|h| { let (n, v) = render(h); Header { name: n, value: v } }).collect();
    let log = Log::from_proxy(&req, 200, &resp, None, "proxy", 1_700_000_000_000, case["client"].as_str().unwrap_or(""));
    let v = serde_json::to_value(&log).unwrap();
    let st = |x: &Value| x.as_str().unwrap_or("").to_string();
    vec![json!({"ev": "log", "client": case["client"], "req": case["req"], "resp": case["resp"],
                "out": {"ips": v["ips"], "to": st(&v["to"]), "referer": st(&v["from"]["referer"]), "userAgent": st(&v["from"]["userAgent"]), "contentType": st(&v["from"]["contentType"])}})]
}
