//! Analysis driver (C19, and the action-trace clause of C17).
//!  kind "loop":    a redirect graph is turned into rules; RedirectionLoop::from_example is recorded.
//!  router history: the histories of MC_Router (inserts, then one fork with a change-set) -- at the fork the
//!                  project-level analyses (explain, impact, test-examples, unit-ids) are run from the existing
//!                  router + change-set and from scratch on the resulting rule list (two rule orders), and the
//!                  live pipeline is run by hand; projections of the outputs are recorded as hashes.
use redirectionio::action::{Action, TraceAction};
use redirectionio::api::{
    Example, ExplainRequestInput, ExplainRequestOutput, ExplainRequestProjectInput, ImpactInput, ImpactOutput, ImpactProjectInput, Rule, RuleChangeSet,
    TestExamplesInput, TestExamplesOutput, TestExamplesProjectInput, UnitIdsInput, UnitIdsOutput, UnitIdsProjectInput,
};
use redirectionio::http::Request;
use redirectionio::router::Router;
use redirectionio::RouterConfig;
use serde_json::{json, Value};
use std::collections::HashSet;
use std::sync::Arc;

use crate::act::fnv;
use crate::router::{config_of, rule_json};
use crate::util::s;

const HOST: &str = "http://example.com";

/// second host of the project: atoms "@2/x" are http://two.example.com/x
const HOST2: &str = "http://two.example.com";
fn abs(u: &str) -> String {
    if let Some(p) = u.strip_prefix("@2") { format!("{}{}", HOST2, p) } else if u.starts_with('/') { format!("{}{}", HOST, u) } else { u.to_string() }
}
fn host_and_path(u: &str) -> (&'static str, String) {
    match u.strip_prefix("@2") { Some(p) => ("two.example.com", p.to_string()), None => ("example.com", u.to_string()) }
}

fn run_loop(case: &Value) -> Vec<Value> {
    // variant A: the rules answer at request time; variant B: the same graph with every rule triggered by a backend 404
    // (the example says the backend answers 404): the chain is the same, only the moment of the decision differs
    let (out, te_a) = run_loop_variant(case, false);
    let (out_b, te_b) = run_loop_variant(case, true);
    vec![json!({"ev": "loop", "g": case["g"], "domains": case["domains"], "maxh": case["maxh"], "start": case["start"], "method": case["method"], "out": out,
                "out_b": out_b, "te": [te_a, te_b]})]
}

/// -> (the redirect chain explain reports, what test-examples says of the start URL as an example of its rule:
///     "failed" / "passed" / "none" when the start URL has no rule)
fn run_loop_variant(case: &Value, backend: bool) -> (Value, Value) {
    let config = RouterConfig::default();
    let mut rules: Vec<Rule> = Vec::new();
    let start = s(case, "start");
    for (u, e) in case["g"].as_object().unwrap() {
        let code = e["code"].as_u64().unwrap();
        if code == 200 {
            continue; // no rule: the backend answers
        }
        // host-less targets for the "/a" URLs when the target is on the SAME host (they are joined to the URL of the hop that
        // answers them), absolute for the others: both must be followed
        let to = s(e, "to");
        let (shost, spath) = host_and_path(u);
        let same_host = (to.starts_with('/') || to.starts_with("@2")) && host_and_path(&to).0 == shost;
        let target = if spath == "/a" && same_host { host_and_path(&to).1 } else { abs(&to) };
        let mut rj = json!({"id": format!("g{}", u), "rank": 0, "source": {"host": shost, "path": spath}, "status_code": code, "target": target});
        if backend {
            rj["source"]["response_status_codes"] = json!([404]);
        }
        if *u == start {
            // the start URL is an example of its own rule (no unit expected: only the rule must apply, and the chain must be sound)
            rj["examples"] = json!([{"url": abs(&start), "method": s(case, "method"), "headers": null, "ip_address": null,
                                     "response_status_code": if backend { json!(404) } else { Value::Null }, "must_match": true, "unit_ids_applied": []}]);
        }
        rules.push(serde_json::from_value(rj).unwrap());
    }
    let example = Example { url: abs(&start), method: Some(s(case, "method")), headers: None, datetime: None, ip_address: None,
        response_status_code: if backend { Some(404) } else { None }, must_match: true, unit_ids_applied: None };
    let domains = if case["domains"].as_bool().unwrap_or(false) { vec!["example.com".to_string(), "two.example.com".to_string()] } else { vec![] };
    let maxh = case["maxh"].as_u64().unwrap() as u8;
    let te = TestExamplesOutput::create_result_without_project(TestExamplesInput { router_config: config.clone(), rules: rules.clone(), max_hops: maxh, project_domains: domains.clone() });
    let tev = serde_json::to_value(&te).unwrap();
    let te_word = if tev["example_count"].as_u64().unwrap_or(0) == 0 { "none" } else if tev["failure_count"].as_u64().unwrap_or(0) > 0 { "failed" } else { "passed" };
    // the redirect-chain analysis is reached through the explain analysis (its type is not exported)
    let out = ExplainRequestOutput::create_result_without_project(ExplainRequestInput { router_config: config, example, rules, max_hops: maxh, project_domains: domains });
    let rl = match out { Ok(o) => serde_json::to_value(&o).unwrap()["redirection_loop"].clone(), Err(_) => json!("error") };
    // hop urls back to the atoms of the specification
    let mut rl = rl;
    if let Some(hops) = rl.get_mut("hops").and_then(|h| h.as_array_mut()) {
        for hp in hops.iter_mut() {
            let u = hp["url"].as_str().unwrap_or("").to_string();
            hp["url"] = json!(match u.strip_prefix(HOST2).filter(|r| r.starts_with('/')) {
                Some(r) => format!("@2{}", r),
                None => u.strip_prefix(HOST).filter(|r| r.starts_with('/')).map(|r| r.to_string()).unwrap_or(u),
            });
        }
    }
    (rl, json!(te_word))
}

// ---------------------------------------------------------------------------------------------
fn example_of(config: &RouterConfig, q: &Value, hdrs: &Value) -> Example {
    let g = |i: usize| q[i].as_str().unwrap_or("").to_string();
    let scheme = if g(0).is_empty() { "http".to_string() } else { g(0) };
    let host = if g(1).is_empty() { "example.com".to_string() } else { g(1) };
    let _ = config;
    let hi = q[4].as_u64().unwrap_or(1) as usize;
    let headers: Vec<Value> = hdrs[hi - 1].as_array().map(|l| l.iter().map(|h| json!({"name": s(h, "name"), "value": s(h, "value")})).collect()).unwrap_or_default();
    serde_json::from_value(json!({
        "url": format!("{}://{}{}", scheme, host, g(6)), "method": if g(3).is_empty() { Value::Null } else { json!(g(3)) },
        "headers": headers, "datetime": if g(5).is_empty() { Value::Null } else { json!(g(5)) }, "ip_address": if g(2).is_empty() { Value::Null } else { json!(g(2)) },
        "response_status_code": null, "must_match": true, "unit_ids_applied": [],
    })).unwrap()
}

/// a rule with unit ids, a body filter, a header filter and one example (a URL it should match)
fn analysis_rule(r: &Value) -> Rule {
    let mut v = rule_json(r);
    let id = s(r, "id");
    let path = r["path"][1].as_str().unwrap().replace("@m", "ab");
    let host = match r["host"][0].as_str().unwrap_or("none") { "static" => r["host"][1].as_str().unwrap().to_string(), "dyn" => "ab.example.com".to_string(), _ => "example.com".to_string() };
    let scheme = if s(r, "scheme").is_empty() { "http".to_string() } else { s(r, "scheme") };
    // some rules stop / reset the fold (the action trace must show it)
    // (r2 is also a sampled rule: always in, unless the request carries the override "false")
    if id == "r2" { v["stop"] = json!(true); v["source"]["sampling"] = json!(100); }
    // r1 acts on a backend 404 only, and its example says the backend answers 404
    // r4 acts on a backend 404 too (and on a 200, the code an analysis assumes when the example gives none) but does NOT redirect:
    // only its header and body filters depend on the backend's code
    let on404 = id == "r1" || id == "r4";
    if on404 { v["source"]["response_status_codes"] = if id == "r4" { json!([404, 200]) } else { json!([404]) }; }
    if id == "r4" { v["status_code"] = Value::Null; v["target"] = Value::Null; }
    if id == "r3" { v["reset"] = json!(true); v["configuration_reset_unit_id"] = json!("u-reset-r3"); }
    v["redirect_unit_id"] = json!(format!("u-{}", id));
    v["target_hash"] = json!(format!("th-{}", id));
    v["header_filters"] = json!([{"action": "add", "header": "X-Rule", "value": id, "id": format!("uh-{}", id), "target_hash": format!("thh-{}", id)}]);
    v["body_filters"] = json!([{"action": "append_child", "value": format!("<i>{}</i>", id), "element_tree": ["html", "body"], "css_selector": null, "id": format!("ub-{}", id), "target_hash": null}]);
    v["examples"] = json!([{"url": format!("{}://{}{}", scheme, host, path), "method": null, "headers": null, "ip_address": null, "response_status_code": if on404 { json!(404) } else { Value::Null },
                            "must_match": true, "unit_ids_applied": if id == "r4" { json!([format!("uh-{}", id), format!("ub-{}", id)]) } else { json!([format!("u-{}", id)]) }}]);
    serde_json::from_value(v).expect("analysis rule")
}

fn sorted(mut v: Vec<String>) -> Vec<String> {
    v.sort();
    v
}
fn strs(v: &Value) -> Vec<String> {
    v.as_array().map(|a| a.iter().map(|x| x.as_str().unwrap_or("").to_string()).collect()).unwrap_or_default()
}
fn route_ids_in_traces(v: &Value, out: &mut Vec<String>) {
    match v {
        Value::Array(a) => a.iter().for_each(|x| route_ids_in_traces(x, out)),
        Value::Object(o) => {
            if o.get("type").and_then(|t| t.as_str()) == Some("storage") {
                if let Some(rs) = o.get("routes").and_then(|r| r.as_array()) {
                    for r in rs {
                        out.push(r["id"].as_str().unwrap_or("").to_string());
                    }
                }
            }
            o.values().for_each(|x| route_ids_in_traces(x, out));
        }
        _ => {}
    }
}
/// the observables the property lists, out of an explain / impact item
fn project_item(v: &Value) -> Value {
    let mut ids = Vec::new();
    route_ids_in_traces(&v["match_traces"], &mut ids);
    ids.sort();
    ids.dedup();
    json!({"status": v["response"]["status_code"], "headers": v["response"]["headers"], "body": v["response"]["body"], "backend": v["backend_status_code"],
           "log": v["should_log_request"], "rules": sorted(strs(&v["unit_trace"]["rule_ids_applied"])), "units": sorted(strs(&v["unit_trace"]["unit_ids_applied"])),
           "seen": sorted(strs(&v["unit_trace"]["unit_ids_seen"])), "loop": v["redirection_loop"], "trace_routes": ids, "error": v["error"]})
}
fn h(v: &Value) -> String {
    fnv(&serde_json::to_string(v).unwrap())
}

/// the live pipeline, by hand, in proxy order: request-time decision first, then the backend's code
fn pipeline_of(fresh: &Router<Rule>, config: &RouterConfig, example: &Example) -> Value {
    match Request::from_example(config, example) {
        Err(_) => json!("error"),
        Ok(req) => {
            let routes = fresh.match_request(&req);
            // C17: the action trace ends in the action the pipeline computes (ranks are distinct)
            let steps = TraceAction::from_trace_rules(&fresh.trace_request(&req), &req);
            let last = steps.last().map(|t| serde_json::to_value(t).unwrap()["action"].clone()).unwrap_or_else(|| serde_json::to_value(Action::default()).unwrap());
            let direct = serde_json::to_value(Action::from_routes_rule(routes.clone(), &req, None)).unwrap();
            // the same comparison when the request samples the sampled rules OUT (a skipped stop / reset rule contributes nothing)
            let mut req_out = req.clone();
            req_out.sampling_override = Some(false);
            let steps_out = TraceAction::from_trace_rules(&fresh.trace_request(&req_out), &req_out);
            let last_out = steps_out.last().map(|t| serde_json::to_value(t).unwrap()["action"].clone()).unwrap_or_else(|| serde_json::to_value(Action::default()).unwrap());
            let direct_out = serde_json::to_value(Action::from_routes_rule(fresh.match_request(&req_out), &req_out, None)).unwrap();
            let sampled_out_equal = h(&last_out) == h(&direct_out);
            let mut a = Action::from_routes_rule(routes, &req, None);
            let s0 = a.get_status_code(0, None);
            let request_time = s0 != 0;
            let (fin, backend) = if request_time { (s0, s0) } else { let b = example.response_status_code.unwrap_or(200); (a.get_status_code(b, None), b) };
            let headers = a.filter_headers(Vec::new(), backend, false, None);
            let mut body = b"<!DOCTYPE html>\n<html>\n    <head>\n    </head>\n    <body>\n    </body>\n</html>".to_vec();
            if let Some(mut f) = a.create_filter_body(backend, &[]) {
                let mut b1 = f.filter(body.clone(), None);
                b1.extend(f.end(None));
                body = b1;
            }
            let log = a.should_log_request(true, fin, None);
            let applied = sorted(a.get_applied_rule_ids().iter().cloned().collect());
            json!({"resp": {"status": fin, "headers": headers, "body": String::from_utf8_lossy(&body), "log": log}, "applied": applied,
                   "request_time_with_code": request_time && example.response_status_code.is_some(),
                   "trace_action_equal": h(&last) == h(&direct) && sampled_out_equal, "ta_dbg": if h(&last) != h(&direct) { json!([last, direct]) } else { json!([]) }})
        }
    }
}

pub fn run(case: &Value) -> Vec<Value> {
    if case["kind"].as_str() == Some("loop") {
        return run_loop(case);
    }
    // router history: inserts build the existing router, the fork carries the change-set
    let config = config_of(&case["cfg"]);
    let pool: Vec<Rule> = case["u"]["pool"].as_array().unwrap().iter().map(analysis_rule).collect();
    let hdrs = &case["u"]["hdrs"];
    let probes: Vec<Value> = case["probes"].as_array().cloned().unwrap_or_default();
    let idx = |v: &Value| -> Vec<usize> { let mut x: Vec<usize> = v.as_array().unwrap().iter().map(|i| i.as_u64().unwrap() as usize - 1).collect(); x.sort(); x };
    let mut existing = Router::<Rule>::from_config(config.clone());
    let mut evs = vec![json!({"ev": "reset", "cfg": case["cfg"]})];
    for o in case["ops"].as_array().unwrap() {
        match s(o, "op").as_str() {
            "insert" => {
                for i in idx(&o["rules"]) {
                    existing.insert(pool[i].clone());
                }
            }
            "fork" => {
                let existing_arc = Arc::new(existing.clone());
                let cs = RuleChangeSet { added: idx(&o["rules"]).iter().map(|i| pool[*i].clone()).collect(), updated: idx(&o["upd"]).iter().map(|i| pool[*i].clone()).collect(),
                                         deleted: o["ids"].as_array().unwrap().iter().map(|x| x.as_str().unwrap().to_string()).collect::<HashSet<String>>() };
                let result_rules: Vec<Rule> = idx(&o["after"][1]).iter().map(|i| pool[*i].clone()).collect();
                let mut reversed = result_rules.clone();
                reversed.reverse();
                let mut items = Vec::new();
                // ---- explain, per probe ----
                let mut fresh = Router::<Rule>::from_config(config.clone());
                for r in &result_rules {
                    fresh.insert(r.clone());
                }
                for (q, code) in probes.iter().flat_map(|q| [(q, None), (q, Some(404u16))]) {
                    let mut example = example_of(&config, q, hdrs);
                    example.response_status_code = code;
                    let pj = ExplainRequestOutput::create_result_from_project(ExplainRequestProjectInput { example: example.clone(), change_set: cs.clone(), max_hops: 3, project_domains: vec![] }, existing_arc.clone());
                    let sa = ExplainRequestOutput::create_result_without_project(ExplainRequestInput { router_config: config.clone(), example: example.clone(), rules: result_rules.clone(), max_hops: 3, project_domains: vec![] });
                    let sr = ExplainRequestOutput::create_result_without_project(ExplainRequestInput { router_config: config.clone(), example: example.clone(), rules: reversed.clone(), max_hops: 3, project_domains: vec![] });
                    let pv = |x: &Result<ExplainRequestOutput, _>| match x { Ok(o) => project_item(&serde_json::to_value(o).unwrap()), Err(_) => json!("error") };
                    let (pj, sa, sr) = (pv(&pj), pv(&sa), pv(&sr));
                    let pipeline = pipeline_of(&fresh, &config, &example);
                    let resp_of = |x: &Value| json!({"status": x["status"], "headers": x["headers"], "body": x["body"], "log": x["log"]});
                    let dbg = if h(&pj) != h(&sa) || h(&sa) != h(&sr) { json!([pj, sa, sr]) } else { json!([]) };
                    items.push(json!({"q": q, "dbg": dbg, "explain": [h(&pj), h(&sa), h(&sr)], "resp_explain": h(&resp_of(&pj)),
                                      "applied_explain": pj["rules"], "applied_pipeline": pipeline.get("applied").cloned().unwrap_or(pj["rules"].clone()), "resp_pipeline": if pipeline.is_object() { h(&pipeline["resp"]) } else { h(&json!("error")) },
                                      "code": code.unwrap_or(0), "request_time_with_code": pipeline.get("request_time_with_code").cloned().unwrap_or(json!(false)),
                                      "trace_action_equal": pipeline.get("trace_action_equal").cloned().unwrap_or(json!(true)), "ta_dbg": pipeline.get("ta_dbg").cloned().unwrap_or(json!([])), "status": pj["status"], "rules": pj["rules"]}));
                }
                // ---- test examples, unit ids ----
                let te = |o: &TestExamplesOutput| { let v = serde_json::to_value(o).unwrap();
                    let mut fk: Vec<String> = v["first_ten_failures"].as_object().map(|m| m.keys().cloned().collect()).unwrap_or_default(); fk.sort();
                    json!({"n": v["example_count"], "f": v["failure_count"], "e": v["error_count"], "failed": fk}) };
                let te_p = TestExamplesOutput::from_project(TestExamplesProjectInput { change_set: cs.clone(), max_hops: 3, project_domains: vec![] }, existing_arc.clone());
                let te_s = TestExamplesOutput::create_result_without_project(TestExamplesInput { router_config: config.clone(), rules: result_rules.clone(), max_hops: 3, project_domains: vec![] });
                let te_r = TestExamplesOutput::create_result_without_project(TestExamplesInput { router_config: config.clone(), rules: reversed.clone(), max_hops: 3, project_domains: vec![] });
                let ui = |o: &UnitIdsOutput| { let v = serde_json::to_value(o).unwrap();
                    let mut out: Vec<(String, Vec<Vec<String>>)> = v["rules"].as_object().map(|m| m.iter().map(|(k, r)| (k.clone(), r["examples"].as_array().unwrap().iter().map(|e| sorted(strs(&e["unit_ids_applied"]))).collect())).collect()).unwrap_or_default();
                    out.sort();
                    json!(out) };
                let ui_p = UnitIdsOutput::create_result_from_project(UnitIdsProjectInput { change_set: cs.clone() }, existing_arc.clone());
                let ui_s = UnitIdsOutput::create_result_without_project(UnitIdsInput { router_config: config.clone(), rules: result_rules.clone() });
                let ui_r = UnitIdsOutput::create_result_without_project(UnitIdsInput { router_config: config.clone(), rules: reversed.clone() });
                // ---- impact of the changed rule ----
                let changed: Option<(Rule, &str)> = cs.added.first().map(|r| (r.clone(), "add")).or_else(|| cs.updated.first().map(|r| (r.clone(), "update")))
                    .or_else(|| cs.deleted.iter().next().and_then(|id| existing_arc.get_route_by_id(id).map(|r| (r.handler().clone(), "delete"))));
                let mut impact = json!([]);
                let mut impact_items: Vec<Value> = Vec::new();
                if let Some((rule, action)) = changed {
                    let im = |o: &ImpactOutput| { let v = serde_json::to_value(o).unwrap(); json!(v["impacts"].as_array().unwrap().iter().map(project_item).collect::<Vec<Value>>()) };
                    let ip = ImpactOutput::from_impact_project(ImpactProjectInput { max_hops: 3, with_redirection_loop: true, domains: vec![], rule: rule.clone(), action: action.to_string(), change_set: cs.clone() }, existing_arc.clone());
                    let is = ImpactOutput::create_result(ImpactInput { router_config: config.clone(), max_hops: 3, with_redirection_loop: true, domains: vec![], rule: rule.clone(), action: action.to_string(), rules: result_rules.clone() });
                    let ir = ImpactOutput::create_result(ImpactInput { router_config: config.clone(), max_hops: 3, with_redirection_loop: true, domains: vec![], rule, action: action.to_string(), rules: reversed.clone() });
                    impact = json!([h(&im(&ip)), h(&im(&is)), h(&im(&ir))]);
                    // the response an impact item reports vs the live pipeline on the resulting router
                    let resp_of2 = |x: &Value| json!({"status": x["status"], "headers": x["headers"], "body": x["body"], "log": x["log"]});
                    for it in im(&ip).as_array().unwrap() {
                        if it["error"] != json!(null) && it["error"] != json!("null") { continue; }
                        let ex: Example = serde_json::from_value(serde_json::to_value(&ip).unwrap()["impacts"][impact_items.len()]["example"].clone()).unwrap();
                        let pl = pipeline_of(&fresh, &config, &ex);
                        impact_items.push(json!({"resp_impact": h(&resp_of2(it)), "resp_pipeline": if pl.is_object() { h(&pl["resp"]) } else { h(&json!("error")) },
                                                 "request_time_with_code": pl.get("request_time_with_code").cloned().unwrap_or(json!(false))}));
                    }
                }
                // ---- the draft is edited again: the impact of ANOTHER version of the changed rule (same id), still under the same action;
                // the version sitting in the change-set must not survive next to it
                let mut impact_reedit = json!([]);
                if let Some((rule, action)) = cs.added.first().map(|r| (r.clone(), "add")).or_else(|| cs.updated.first().map(|r| (r.clone(), "update"))) {
                    let this = serde_json::to_string(&rule).unwrap();
                    if let Some(v2) = pool.iter().find(|r| r.id == rule.id && serde_json::to_string(r).unwrap() != this) {
                        // the examples written for the earlier version stay with the rule when it is edited
                        let mut v2 = v2.clone();
                        let mut exs = v2.examples.clone().unwrap_or_default();
                        exs.extend(rule.examples.clone().unwrap_or_default());
                        v2.examples = Some(exs);
                        let v2 = &v2;
                        let im = |o: &ImpactOutput| { let v = serde_json::to_value(o).unwrap(); json!(v["impacts"].as_array().unwrap().iter().map(project_item).collect::<Vec<Value>>()) };
                        let ip = ImpactOutput::from_impact_project(ImpactProjectInput { max_hops: 3, with_redirection_loop: true, domains: vec![], rule: v2.clone(), action: action.to_string(), change_set: cs.clone() }, existing_arc.clone());
                        let is = ImpactOutput::create_result(ImpactInput { router_config: config.clone(), max_hops: 3, with_redirection_loop: true, domains: vec![], rule: v2.clone(), action: action.to_string(), rules: result_rules.clone() });
                        let ir = ImpactOutput::create_result(ImpactInput { router_config: config.clone(), max_hops: 3, with_redirection_loop: true, domains: vec![], rule: v2.clone(), action: action.to_string(), rules: reversed.clone() });
                        impact_reedit = json!([h(&im(&ip)), h(&im(&is)), h(&im(&ir))]);
                    }
                }
                evs.push(json!({"ev": "analyses", "o": {"op": "fork", "h": 2, "ids": o["ids"]}, "items": items, "impact_reedit": impact_reedit,
                                "test_examples": [h(&te(&te_p)), h(&te(&te_s)), h(&te(&te_r))], "te": te(&te_p),
                                "unit_ids": [h(&ui(&ui_p)), h(&ui(&ui_s)), h(&ui(&ui_r))], "impact": impact, "impact_items": impact_items,
                                "existing_len_after": existing_arc.len(), "existing_len_before": existing.len()}));
                existing = Arc::try_unwrap(existing_arc).unwrap_or_else(|a| (*a).clone());
            }
            _ => {}
        }
    }
    evs
}
