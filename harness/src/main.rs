//! Conformance harness: replays TLC-generated behaviours into the real library and records
//! ndjson traces that TLC validates against the specifications.
mod act;
mod analysis;
mod body;
mod c13;
mod ffi;
mod marker;
mod pipe;
mod radix;
mod router;
mod tok;
mod total;
mod url;
mod util;

#[global_allocator]
static GLOBAL: ffi::RecAlloc = ffi::RecAlloc;

fn main() {
    let args: Vec<String> = std::env::args().collect();
    if args.len() < 4 {
        eprintln!("usage: harness <driver> <cases.ndjson> <trace.ndjson>");
        std::process::exit(2);
    }
    util::install_panic_hook();
    let (inp, outp) = (args[2].as_str(), args[3].as_str());
    match args[1].as_str() {
        "log" => util::run_cases(inp, outp, total::run_log),
        "total" => total::parent(inp, outp),
        "total_child" => total::child(inp, outp, args.get(4).and_then(|x| x.parse().ok()).unwrap_or(0)),
        "ffi" => ffi::parent(inp, outp),
        "ffi_child" => ffi::child(inp, outp, args.get(4).and_then(|x| x.parse().ok()).unwrap_or(0), args.get(5).and_then(|x| x.parse().ok()).unwrap_or(usize::MAX)),
        "c13" => util::run_cases(inp, outp, c13::run),
        "units" => util::run_cases(inp, outp, c13::run_units),
        "radix" => util::run_cases(inp, outp, radix::run),
        "radix_prefix" => util::run_cases(inp, outp, radix::run_prefix),
        "radix_rx" => util::run_cases(inp, outp, radix::run_rx),
        "router" => util::run_cases(inp, outp, router::run),
        "body" => util::run_cases(inp, outp, body::run),
        "tok" => util::run_cases(inp, outp, tok::run),
        "toklex" => util::run_cases(inp, outp, tok::run_lex),
        "pipe" => util::run_cases(inp, outp, pipe::run_case),
        "url" => util::run_cases(inp, outp, url::run),
        "marker" => util::run_cases(inp, outp, marker::run),
        "analysis" => util::run_cases(inp, outp, analysis::run),
        "act" => util::run_cases(inp, outp, act::run),
        other => {
            eprintln!("harness: unknown driver {}", other);
            std::process::exit(2);
        }
    }
}
