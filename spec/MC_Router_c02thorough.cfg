SPECIFICATION Spec
CONSTANTS
  Pool <- PoolHist
  Cfgs <- CfgsTwo
  OpKinds = {"insert", "remove", "batch_remove", "change_set", "fork", "cache"}
  MaxOps = 4
  MaxRules = 3
  ReqUniverse <- Universe
VIEW View
INVARIANTS NoMissNoSpurious IncrementalEqualsRebuild UniqueIds Emit
PROPERTY Isolation
CHECK_DEADLOCK FALSE
