SPECIFICATION Spec
CONSTANTS
  Patterns <- PUp
  Ids = {"i1", "i2", "i3", "i4", "i5"}
  Haystacks <- H4c
  KeepSets = {{"i1"}, {"i2", "i3"}, {"i1", "i4", "i5"}}
  Limits = {1, 2, 3}
  Levels = {0, 1, 99}
  IgnoreCase = {FALSE, TRUE}
  MaxOps = 8
INVARIANTS FindCorrect LenCorrect GetCorrect TreeInv RemoveReturnsValue CacheTransparent CacheBudget Emit
CHECK_DEADLOCK FALSE
