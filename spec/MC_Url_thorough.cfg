SPECIFICATION Spec
CONSTANTS
  Urls <- UrlsThorough
  Cfgs <- CfgsAll
INVARIANTS MatchMeetsCanonical ExactWhenNormalising SelfMatchWhenNormalising Emit
CHECK_DEADLOCK FALSE
