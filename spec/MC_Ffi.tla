------------------------------- MODULE MC_Ffi -------------------------------
EXTENDS Ffi, Json
\* at the end of a behaviour the harness releases everything still owned (Quiesce), in id order
Emit == ncalls = MaxCalls => PrintT(<<"REPLAY", ToJson([calls |-> hist, left |-> {[id |-> o.id, ty |-> o.ty] : o \in live}])>>)
\* focused runs: one action carrying filters, one filter object
OneFilter == /\ \A o \in Of("action") : o.k \in {"filters", "html_only"}
             /\ Cardinality(Of("action")) <= 1 /\ Cardinality(Of("filter")) <= 1
=============================================================================
