------------------------------ MODULE Trace_Body ------------------------------
(* Trace validation for the body filters (C03, C04, C15).  One event per (document, filters,
   schedule):
     case {doc, fs, sched, whole, chunked, outs, whole_stripped, chunked_stripped, sweep,
           cut_diffs?, byte1?, byte1_empty?, ulens?}
   whole / chunked   concatenated real output for one chunk / for the schedule (+ end())
   *_stripped        the same with every filter value removed
   cut_diffs         [[c, out]] for every single byte cut c whose output differs from `whole`
   byte1, byte1_empty   output when fed one byte at a time (and with empty chunks interleaved)

   classes  C03: chunk_dependence (unexplained), D1_cut_in_markup_declaration, D2_cut_in_raw_text
            C04: bytes_lost_or_reordered, inert_not_passthrough, replace_output_unexplained
            C15: edit_wrong                                                             *)
EXTENDS BodyFilter, RefEdit, Json, IOUtils

TraceLog == ndJsonDeserialize(IOEnv.TRACE)
VARIABLES l
Report(tag, cls) == PrintT(<<tag, l, cls>>)
Judge(ok, cls) == IF ok THEN TRUE ELSE Report("VERDICT", cls)
Drift(ok, cls) == IF ok THEN TRUE ELSE Report("DRIFT", cls)
IsEvent(e) == l <= Len(TraceLog) /\ TraceLog[l].ev = e /\ l' = l + 1

\* the class of a chunk-dependence: the deviation the code-shaped model went through, provided the model
\* also predicts the observed bytes; anything else is unexplained
DevClass(dv) == IF "D1_cut_in_markup_declaration" \in dv THEN "D1_cut_in_markup_declaration"
                ELSE IF "D2_cut_in_raw_text" \in dv THEN "D2_cut_in_raw_text" ELSE "chunk_dependence"
InertFs(doc, fs) == \A k \in 1..Len(fs) : IsHtml(fs[k]) /\ ~\E i \in 1..Len(doc) : doc[i].k \in {"stag", "sc"} /\ doc[i].n = fs[k].path[1]

\* byte offset -> the lexeme kind context of a cut (for the byte sweeps)
RECURSIVE Prefix(_,_)
Prefix(s, n) == IF n = 0 THEN 0 ELSE s[n] + Prefix(s, n - 1)
\* index (in AllUnits) of the unit containing byte offset c (cut after c bytes)
UnitOfCut(ulens, c) == CHOOSE u \in 1..Len(ulens) : Prefix(ulens, u - 1) < c /\ c <= Prefix(ulens, u)
\* is the cut (after unit index u of AllUnits, possibly inside it) inside a markup declaration or raw text ?
\* a markup declaration / raw-text element is a known source of chunk dependence only when it CONTAINS markup
DeclOpen(doc, i) == IF \E o \in 1..i : doc[o].k = "copen" /\ ~\E x \in o..(i - 1) : doc[x].k = "cclose"
                    THEN CHOOSE o \in 1..i : doc[o].k = "copen" /\ ~\E x \in o..(i - 1) : doc[x].k = "cclose" /\ \A o2 \in (o + 1)..i : doc[o2].k # "copen"
                    ELSE 0
DeclEnd(doc, o) == IF \E x \in o..Len(doc) : doc[x].k = "cclose" THEN CHOOSE x \in o..Len(doc) : doc[x].k = "cclose" /\ \A y \in o..(x - 1) : doc[y].k # "cclose" ELSE Len(doc)
RawOpen(doc, i) == IF \E o \in 1..(i - 1) : doc[o].k = "stag" /\ doc[o].n \in RawEls /\ ~\E x \in (o + 1)..(i - 1) : doc[x].k = "etag" /\ doc[x].n = doc[o].n
                   THEN CHOOSE o \in 1..(i - 1) : doc[o].k = "stag" /\ doc[o].n \in RawEls /\ ~\E x \in (o + 1)..(i - 1) : doc[x].k = "etag" /\ doc[x].n = doc[o].n
                   ELSE 0
RawEnd(doc, o) == IF \E x \in (o + 1)..Len(doc) : doc[x].k = "etag" /\ doc[x].n = doc[o].n
                  THEN CHOOSE x \in (o + 1)..Len(doc) : doc[x].k = "etag" /\ doc[x].n = doc[o].n /\ \A y \in (o + 1)..(x - 1) : ~(doc[y].k = "etag" /\ doc[y].n = doc[o].n)
                  ELSE Len(doc)
HasMarkup(doc, a, b) == \E x \in a..b : doc[x].k \in TagLike
CutClass(doc, ulens, c) ==
  LET ui == UnitOfCut(ulens, c)
      u == AllUnits(doc)[ui] i == u[1]
      atEnd == Prefix(ulens, ui) = c
      j == IF atEnd /\ u[2] = Len(doc[i].us) /\ i < Len(doc) THEN i + 1 ELSE i      \* lexeme the cut falls in / before
      dO == DeclOpen(doc, i)
      rO == RawOpen(doc, j)
  IN IF dO # 0 /\ HasMarkup(doc, dO + 1, DeclEnd(doc, dO)) THEN "D1_cut_in_markup_declaration"
     ELSE IF rO # 0 /\ HasMarkup(doc, rO + 1, RawEnd(doc, rO) - 1) THEN "D2_cut_in_raw_text"
     ELSE "chunk_dependence"

\* a document with an invalid byte drives the chain into its error state, which the code-shaped model does not cover
HasBad(doc) == \E i \in 1..Len(doc) : \E j \in 1..Len(doc[i].us) : doc[i].us[j] = "~!~"

TraceCase ==
  /\ IsEvent("case")
  /\ LET e == TraceLog[l]
         doc == e.doc fs == e.fs
         mw == RunWhole(doc, fs)
         mc == RunChunked(doc, fs, e.sched)
         mcs == Render(doc, fs, mc.out, 1)
     IN
     \* C03: the relation between the two real executions
     \* (C03 quantifies over valid UTF-8 bodies only)
     /\ Judge(HasBad(doc) \/ e.chunked = e.whole, IF mc.dev # {} /\ e.chunked = mcs THEN DevClass(mc.dev) ELSE "chunk_dependence")
     /\ (IF e.sweep /\ ~HasBad(doc)
         THEN /\ \A k \in 1..Len(e.cut_diffs) : Report("VERDICT", CutClass(doc, e.ulens, e.cut_diffs[k][1]))
              /\ Judge(e.byte1 = e.whole, IF \E i \in 1..Len(doc) : doc[i].k = "copen" /\ HasMarkup(doc, i + 1, DeclEnd(doc, i)) THEN "D1_cut_in_markup_declaration"
                                         ELSE IF \E i \in 1..Len(doc) : doc[i].k = "stag" /\ doc[i].n \in RawEls /\ HasMarkup(doc, i + 1, RawEnd(doc, i) - 1) THEN "D2_cut_in_raw_text"
                                         ELSE "chunk_dependence")
              /\ Judge(e.byte1_empty = e.byte1, "chunk_dependence")
         ELSE TRUE)
     \* C04
     /\ Judge(InsertOnly(fs) => e.whole_stripped = DocStr(doc), "bytes_lost_or_reordered")
     /\ Judge(InsertOnly(fs) => e.chunked_stripped = DocStr(doc),
              IF HasBad(doc) /\ Len(e.sched) > 1 THEN "F4b_error_path_loses_held_bytes" ELSE "bytes_lost_or_reordered")
     \* ... and under the byte-level sweeps (every single cut, one byte at a time, empty chunks interleaved)
     /\ Judge((e.sweep /\ InsertOnly(fs) /\ ~HasBad(doc)) => (e.byte1_stripped = DocStr(doc) /\ e.byte1_empty_stripped = DocStr(doc) /\ e.cut_lost = <<>>),
              "bytes_lost_or_reordered")
     /\ Judge((e.sweep /\ InertFs(doc, fs) /\ ~HasBad(doc)) => (e.byte1 = DocStr(doc) /\ e.byte1_empty = DocStr(doc)), "inert_not_passthrough")
     /\ Judge(InertFs(doc, fs) => e.whole = DocStr(doc), "inert_not_passthrough")
     /\ Judge(InertFs(doc, fs) => e.chunked = DocStr(doc),
              IF HasBad(doc) /\ Len(e.sched) > 1 THEN "F4b_error_path_loses_held_bytes" ELSE "inert_not_passthrough")
     /\ Judge((~InsertOnly(fs) /\ ~HasBad(doc)) => e.whole = Render(doc, fs, mw, 1), "replace_output_unexplained")
     \* C15
     /\ Judge((InDomain(doc, fs) /\ ~HasBad(doc)) => e.whole = Render(doc, fs, RefOut(doc, fs), 1), "edit_wrong")
     \* drift
     /\ Drift(HasBad(doc) \/ e.whole = Render(doc, fs, mw, 1), "whole_output")
     /\ Drift(HasBad(doc) \/ e.chunked = mcs, "chunked_output")
\* lex {doc, toks = [[t, n, raw]], held}: the real tokenizer on a whole document vs the specification's Scan
\* (token TYPES, tag names and raw texts; classes (C16): token_sequence_differs)
TokType(t) == CASE t = "stag" -> "StartTag" [] t = "etag" -> "EndTag" [] t = "sc" -> "SelfClosingTag" [] t = "comment" -> "Comment" [] OTHER -> "Text"
RECURSIVE MergeText(_,_)
\* adjacent text tokens of the model (an inserted value next to text) are one token for the tokenizer
MergeText(ts, i) == IF i > Len(ts) THEN <<>>
                    ELSE IF i < Len(ts) /\ ts[i].t = "text" /\ ts[i + 1].t = "text"
                         THEN MergeText([k \in 1..(Len(ts) - 1) |-> IF k < i THEN ts[k] ELSE IF k = i THEN [t |-> "text", n |-> "", us |-> ts[i].us \o ts[i + 1].us] ELSE ts[k + 1]], i)
                         ELSE <<ts[i]>> \o MergeText(ts, i + 1)
TraceLex ==
  /\ IsEvent("lex")
  /\ LET e == TraceLog[l] doc == e.doc
         sc == Scan(doc, AllUnits(doc), 1)
         want == MergeText(sc.toks, 1)
     IN /\ Judge(HasBad(doc) \/ (Len(e.toks) = Len(want) /\ \A k \in 1..Len(want) :
                    /\ e.toks[k].t = TokType(want[k].t) /\ e.toks[k].raw = Render(doc, <<>>, want[k].us, 1)
                    /\ (want[k].t \in {"stag", "etag", "sc"} => e.toks[k].n = want[k].n)), "token_sequence_differs")
        /\ Judge(HasBad(doc) \/ e.held = Render(doc, <<>>, sc.held, 1), "token_sequence_differs")
TracePanic == IsEvent("panic") /\ Report("VERDICT", "panic")
TraceNext == TraceCase \/ TraceLex \/ TracePanic
TraceSpec == l = 1 /\ [][TraceNext]_l
Accepted == LET d == TLCGet("stats").diameter IN
            IF d - 1 = Len(TraceLog) THEN PrintT(<<"ACCEPTED", Len(TraceLog)>>)
            ELSE Print(<<"REJECTED", d, IF d <= Len(TraceLog) THEN TraceLog[d].ev ELSE "eof">>, FALSE)
=============================================================================
