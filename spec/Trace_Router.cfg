SPECIFICATION TraceSpec
CONSTANTS
  Pool = {}
  Cfgs <- CfgsAll
  OpKinds = {"insert", "remove", "batch_remove", "change_set", "fork", "cache"}
  MaxOps = 1000000
  MaxRules = 1000
  ReqUniverse <- Universe
POSTCONDITION Accepted
CHECK_DEADLOCK FALSE
