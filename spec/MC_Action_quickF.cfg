SPECIFICATION Spec
CONSTANTS
  Pool <- PoolFq
  MaxRules = 2
  Codes = {0, 200, 404, 500}
  Overrides = {"none", "true", "false"}
  Scripts <- ScriptsQuick
INVARIANTS FoldMeetsReference AppliedMeetsReference OrderIsTotal OnlyWindowRules Emit
CHECK_DEADLOCK FALSE
