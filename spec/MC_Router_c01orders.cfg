SPECIFICATION Spec
CONSTANTS
  Pool <- PoolOrders
  Cfgs <- CfgsTwo
  OpKinds = {"insert"}
  MaxOps = 3
  MaxRules = 3
  ReqUniverse <- Universe
VIEW ViewOrder
INVARIANTS NoMissNoSpurious IncrementalEqualsRebuild UniqueIds Emit
CHECK_DEADLOCK FALSE
