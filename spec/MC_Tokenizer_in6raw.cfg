SPECIFICATION SpecInputs
CONSTANTS
  Inputs <- InputsDef
  MaxLen = 6
  AlphaName = "raw"
INVARIANTS Emit
CHECK_DEADLOCK FALSE
