---------------------------- MODULE Trace_Pipeline ----------------------------
(* pipe {doc, fs, enc, plain_out, is_empty, body, runs, diffs, untouched}
   diffs: one record per way of cutting the compressed stream whose decoded output differs from the
   plain-body result or is not a complete valid stream.
   classes (C14): codec_changes_result, output_stream_incomplete, unsupported_encoding_filtered,
                  D1_cut_in_markup_declaration / D2_cut_in_raw_text (chunk dependence of C03 seen
                  through the decoder's own chunking)                                        *)
EXTENDS BodyFilter, Json, IOUtils
TraceLog == ndJsonDeserialize(IOEnv.TRACE)
VARIABLES l
Report(tag, cls) == PrintT(<<tag, l, cls>>)
Judge(ok, cls) == IF ok THEN TRUE ELSE Report("VERDICT", cls)
Drift(ok, cls) == IF ok THEN TRUE ELSE Report("DRIFT", cls)
IsEvent(e) == l <= Len(TraceLog) /\ TraceLog[l].ev = e /\ l' = l + 1
\* content-coding names are case-insensitive: "GZIP" and "Br" declare gzip and br
Supported == {"gzip", "deflate", "br", "GZIP", "Br"}
Builds(fs) == \E k \in 1..Len(fs) : fs[k].act # "unknown"
HasBad(doc) == \E i \in 1..Len(doc) : \E j \in 1..Len(doc[i].us) : doc[i].us[j] = "~!~"
\* documents prone to the known chunk dependence of C03
DeclWithMarkup(doc) == \E o \in 1..Len(doc) : doc[o].k = "copen" /\ \E x \in (o + 1)..Len(doc) : doc[x].k \in TagLike
RawWithMarkup(doc) == \E o \in 1..Len(doc) : doc[o].k = "stag" /\ doc[o].n \in RawEls /\ o < Len(doc) /\ doc[o + 1].k # "etag"
                                             /\ \E x \in (o + 1)..Len(doc) : doc[x].k \in TagLike /\ ~(doc[x].k = "etag" /\ doc[x].n = doc[o].n)
DiffClass(doc, d) == IF ~d.complete THEN "output_stream_incomplete"
                     ELSE IF DeclWithMarkup(doc) THEN "D1_cut_in_markup_declaration"
                     ELSE IF RawWithMarkup(doc) THEN "D2_cut_in_raw_text" ELSE "codec_changes_result"
TracePipe ==
  /\ IsEvent("pipe")
  /\ LET e == TraceLog[l] IN
     /\ IF e.enc \in Supported /\ Builds(e.fs)
        THEN /\ Judge(~e.is_empty, "gate_wrong")
             /\ \A k \in 1..Len(e.diffs) : Report("VERDICT", DiffClass(e.doc, e.diffs[k]))
        ELSE IF ~Builds(e.fs)
        \* nothing to build (empty list, unknown actions only): no chain whatever the encoding, every byte passes untouched
        THEN /\ Judge(e.is_empty, "gate_wrong")
             /\ Judge(e.untouched /\ e.plain_out = e.body, "inert_chain_touches_body")
        ELSE /\ Judge(e.enc = "none" \/ e.is_empty, "unsupported_encoding_filtered")
             /\ Judge(e.untouched, "unsupported_encoding_filtered")
     /\ Drift(HasBad(e.doc) \/ ~Builds(e.fs) \/ e.plain_out = Render(e.doc, e.fs, RunWhole(e.doc, e.fs), 1), "plain_output")
TracePanic == IsEvent("panic") /\ Report("VERDICT", "panic")
TraceNext == TracePipe \/ TracePanic
TraceSpec == l = 1 /\ [][TraceNext]_l
Accepted == LET d == TLCGet("stats").diameter IN
            IF d - 1 = Len(TraceLog) THEN PrintT(<<"ACCEPTED", Len(TraceLog)>>)
            ELSE Print(<<"REJECTED", d, IF d <= Len(TraceLog) THEN TraceLog[d].ev ELSE "eof">>, FALSE)
=============================================================================
