---------------------------- MODULE MC_HeaderOps ----------------------------
(* Model-checking instance of HeaderOps: exhaustive enumeration of (header list, filter
   sequence) pairs; every maximal behaviour is printed as one JSON line for replay into
   the real library (binding B1). *)
EXTENDS HeaderMachine, Json

Emit == Len(fs) = MaxF => PrintT(<<"REPLAY", ToJson([h |-> h0, fs |-> fs])>>)
=============================================================================
