------------------------------ MODULE Totality ------------------------------
(* Property C07: every public entry point returns normally for every input.
   An entry point is an action that is ENABLED FOR EVERY ARGUMENT of its hostile value classes and
   must lead to "returned".  A call is [entry, dims]: dims maps some of the entry's input
   dimensions to a hostile class; the other dimensions keep their ordinary value.  TLC enumerates
   every single-dimension call and every listed pair; the harness concretises each class (the
   table is in harness/src/total.rs) and runs the call in a child process with a wall-clock bound:
   a panic, an abort (stack overflow) or a hang is recorded instead of a return.           *)
EXTENDS Naturals, Sequences, FiniteSets, TLC

\* entry -> dimension -> classes
Classes(entry, dim) ==
  CASE entry = "pipeline" ->
         (CASE dim = "transformer" -> {"slice_0_1", "slice_1_3", "slice_3_1", "slice_9_x", "slice_x_9", "slice_no_options", "slice_no_to", "unknown_type", "null_type", "replace_no_with", "replace_empty"}
           [] dim = "capture" -> {"ascii", "two_byte", "four_byte", "empty", "long", "own_placeholder", "other_placeholder"}
           [] dim = "marker_regex" -> {"empty", "open_paren", "open_class", "anchors", "named_group", "optional_named_group", "alternation_named_groups", "nested_optional_group", "dot_star", "huge_repeat", "backref", "unicode_class"}
           [] dim = "header_trigger" -> {"unknown_kind", "equals_null_value", "regex_invalid", "regex_no_marker", "name_empty", "name_unicode"}
           [] dim = "ips" -> {"valid", "prefix_33", "garbage", "v6_all", "host_addr", "empty_list"}
           [] dim = "datetime" -> {"open_end", "garbage", "both_null", "out_of_range", "reversed"}
           [] dim = "time" -> {"hour_25", "short", "garbage", "both_null"}
           [] dim = "weekdays" -> {"valid", "funday", "empty_string", "empty_list"}
           [] dim = "path" -> {"empty", "unicode", "percent_alone", "percent_zz", "long_10k", "space", "unknown_marker", "only_marker", "regex_chars"}
           [] dim = "query" -> {"bad_escape", "percent_alone", "long_10k", "only_amp", "equals_only"}
           [] dim = "target" -> {"relative", "no_slash", "empty", "mailto", "bad_ipv6", "scheme_relative", "unknown_marker", "unicode"}
           [] dim = "body_filter" -> {"empty_tree", "unknown_action", "bad_selector", "huge_value", "text_replace_empty", "deep_tree"}
           [] dim = "header_filter" -> {"unknown_action", "bad_name", "empty_name", "huge_value"}
           [] dim = "codes" -> {"status_0", "status_65535", "on_codes_65535", "sampling_huge", "rank_65535"}
           [] dim = "request_path" -> {"empty", "no_slash", "percent_alone", "bad_query_escape", "unicode_raw", "long_10k", "question_only", "fragment"}
           [] dim = "request_host" -> {"none", "empty", "upper", "unicode", "with_port"}
           [] dim = "request_misc" -> {"no_scheme", "ftp_scheme", "empty_method", "lower_method", "v6_addr", "no_date", "headers_5000", "header_dup", "header_empty_name"}
           [] dim = "response" -> {"code_0", "code_65535", "headers_empty", "headers_5000", "content_type_weird", "gzip_garbage", "br_garbage", "deflate_garbage", "encoding_unknown"}
           [] dim = "body" -> {"empty", "lone_lt", "truncated_tag", "truncated_comment", "invalid_utf8", "script_1mb", "nested_10k", "nul_bytes", "only_end_tags", "cdata", "doctype_only",
                               "latin1_small_chunks"}
           \* a SECOND rule loaded next to the first one: two dynamic patterns sharing a prefix (non-ASCII text of 2, 3, 4 byte characters) land in one tree node
           [] dim = "sibling_rule" -> {"host_cyrillic_prefix", "host_cjk_prefix", "host_2byte_prefix", "host_emoji_prefix", "path_unicode_prefix", "same_source"})
    [] entry = "analysis" ->
         (CASE dim = "example_url" -> {"garbage", "empty", "relative", "unicode", "no_host", "with_fragment"}
           [] dim = "example_misc" -> {"ip_garbage", "ip_v6", "datetime_garbage", "method_weird", "headers_many", "code_65535"}
           [] dim = "max_hops" -> {"hops_0", "hops_1", "hops_255"}
           [] dim = "target" -> {"relative", "mailto", "bad_ipv6", "self_loop", "scheme_relative", "unicode", "empty"}
           [] dim = "domains" -> {"none", "project", "other", "empty_string"}
           [] dim = "change_set" -> {"delete_unknown", "update_unknown", "add_existing", "all_empty"})
    [] entry = "log" ->
         (CASE dim = "forwarded" -> {"garbage", "many", "v6", "empty", "obfuscated", "lone_quote", "empty_quotes", "quote_proto", "bracket_only", "port_only", "eq_only",
                                     "port_overflow", "empty_brackets", "xff_ports", "for_upper"}
           [] dim = "misc" -> {"no_action", "code_0", "code_65535", "time_max", "headers_5000"})
    [] entry = "tokenizer" ->
         (CASE dim = "body" -> {"empty", "lone_lt", "truncated_tag", "truncated_comment", "invalid_utf8", "script_1mb", "nested_10k", "nul_bytes", "only_end_tags", "cdata", "doctype_only",
                                "latin1_small_chunks"})
Dims(entry) ==
  CASE entry = "pipeline" -> {"transformer", "capture", "marker_regex", "header_trigger", "ips", "datetime", "time", "weekdays", "path", "query", "target", "body_filter",
                              "header_filter", "codes", "request_path", "request_host", "request_misc", "response", "body", "sibling_rule"}
    [] entry = "analysis" -> {"example_url", "example_misc", "max_hops", "target", "domains", "change_set"}
    [] entry = "log" -> {"forwarded", "misc"}
    [] entry = "tokenizer" -> {"body"}
Entries == {"pipeline", "analysis", "log", "tokenizer"}
\* pairs of dimensions whose classes are combined
Pairs(entry) ==
  CASE entry = "pipeline" -> {<<"transformer", "capture">>, <<"body_filter", "body">>, <<"response", "body">>, <<"target", "request_path">>, <<"marker_regex", "path">>}
    [] entry = "analysis" -> {<<"target", "domains">>, <<"target", "max_hops">>, <<"example_url", "domains">>}
    [] OTHER -> {}

Calls == UNION { {[entry |-> e, dims |-> <<<<d, c>>>>] : c \in Classes(e, d)} : <<e, d>> \in {<<e2, d2>> \in Entries \X UNION {Dims(x) : x \in Entries} : d2 \in Dims(e2)} }
         \cup UNION { {[entry |-> e, dims |-> <<<<p[1], c1>>, <<p[2], c2>>>>] : c1 \in Classes(e, p[1]), c2 \in Classes(e, p[2])} :
                      <<e, p>> \in {<<e2, p2>> \in Entries \X UNION {Pairs(x) : x \in Entries} : p2 \in Pairs(e2)} }

VARIABLES state, last
vars == <<state, last>>
Init == state = "idle" /\ last = <<>>
\* an entry point is enabled for EVERY call of its classes ...
Call(c) == state \in {"idle", "returned"} /\ state' = "called" /\ last' = c
\* ... and returns
Return == state = "called" /\ state' = "returned" /\ UNCHANGED last
Next == (\E c \in Calls : Call(c)) \/ Return
Spec == Init /\ [][Next]_vars /\ WF_vars(Return)
\* C07 as a temporal property of the specification: a call always returns
AlwaysReturns == [](state = "called" => <>(state = "returned"))
TypeOK == state \in {"idle", "called", "returned"}
=============================================================================
