SPECIFICATION SpecInputs
CONSTANTS
  Inputs <- InputsDef
  MaxLen = 4
  AlphaName = "markup"
INVARIANTS Emit
CHECK_DEADLOCK FALSE
