---------------------------- MODULE RouterMachine ----------------------------
(* State machine of Router<Rule>: insert / remove / batch_remove / apply_change_set /
   clone-then-change-set (RuleChangeSet::update_existing_router) / cache, on up to two
   router handles, with match / trace / get_route / len / get_route_by_id as observers
   checked in every reachable state (C01, C02, C17; C12 and C06 on the real side).      *)
EXTENDS Router

CONSTANTS Pool,         \* rule records; several records may share an id (versions of a rule)
          Cfgs,         \* router configurations explored
          OpKinds,      \* subset of {"insert","remove","batch_remove","change_set","fork","cache"}
          MaxOps, MaxRules,
          ReqUniverse   \* [scheme, host, ip, method, hdrs, at, path : sets of atoms], first = default

VARIABLES cfg,
          live,     \* handle -> set of rules (layer P state); handle 2 exists once forked
          index,    \* handle -> set of index entries (layer I state)
          forked,   \* BOOLEAN: handle 2 exists
          nops, ret, hist
vars == <<cfg, live, index, forked, nops, ret, hist>>
\* the history is hidden from the state space except for the kind of the last operation, so that every
\* kind of operation is replayed into every reachable abstract state
View == <<cfg, live, index, forked, nops, IF hist = <<>> THEN "" ELSE hist[Len(hist)].op>>
\* finer view for small pools: one history per (state, sequence of operation KINDS and handles): the same abstract state is
\* also reached through a change-set where another history reaches it through single insertions (per-layer counters and
\* other hidden implementation state may differ)
ViewKinds == <<cfg, live, index, forked, nops, [k \in 1..Len(hist) |-> <<hist[k].op, hist[k].h>>]>>
\* every ORDER of the operations is a state of its own (tree shapes and bucket creation order depend on the insertion order)
ViewOrder == <<cfg, live, index, forked, nops, [k \in 1..Len(hist) |-> <<hist[k].op, hist[k].h, hist[k].rules, hist[k].ids>>]>>

Handles == {1, 2}
Exists(h) == h = 1 \/ forked
Ids(R) == {r.id : r \in R}

Init == /\ cfg \in Cfgs
        /\ live = [h \in Handles |-> {}] /\ index = [h \in Handles |-> {}]
        /\ forked = FALSE /\ nops = 0 /\ ret = <<>> /\ hist = <<>>

Rec(op, h, rules, ids, upd) == [op |-> op, h |-> h, rules |-> rules, ids |-> ids, upd |-> upd]
\* the history also records the live sets after the operation (used to rebuild routers from scratch)
Log(e) == hist' = Append(hist, [op |-> e.op, h |-> e.h, rules |-> e.rules, ids |-> e.ids, upd |-> e.upd,
                                after |-> <<live'[1], live'[2]>>, forked |-> forked'])

Insert(h, r) ==
  /\ "insert" \in OpKinds /\ nops < MaxOps /\ Exists(h)
  /\ r.id \notin Ids(live[h]) /\ Cardinality(live[h]) < MaxRules
  /\ live' = [live EXCEPT ![h] = @ \cup {r}]
  /\ index' = [index EXCEPT ![h] = @ \cup Entries(cfg, r)]
  /\ ret' = <<>>
  /\ nops' = nops + 1 /\ UNCHANGED <<cfg, forked>>
  /\ Log(Rec("insert", h, {r}, {}, {}))

RemoveRule(h, id) ==
  /\ "remove" \in OpKinds /\ nops < MaxOps /\ Exists(h)
  /\ live' = [live EXCEPT ![h] = {r \in @ : r.id # id}]
  /\ index' = [index EXCEPT ![h] = {e \in @ : e.id # id}]
  /\ ret' = IF id \in Ids(live[h]) THEN <<id>> ELSE <<>>
  /\ nops' = nops + 1 /\ UNCHANGED <<cfg, forked>>
  /\ Log(Rec("remove", h, {}, {id}, {}))

BatchRemove(h, S) ==
  /\ "batch_remove" \in OpKinds /\ nops < MaxOps /\ Exists(h) /\ S # {} /\ S \cap Ids(live[h]) # {}
  /\ live' = [live EXCEPT ![h] = {r \in @ : r.id \notin S}]
  /\ index' = [index EXCEPT ![h] = {e \in @ : e.id \notin S}]
  /\ ret' = <<>>
  /\ nops' = nops + 1 /\ UNCHANGED <<cfg, forked>>
  /\ Log(Rec("batch_remove", h, {}, S, {}))

\* apply_change_set(added, updated, deleted) = batch_remove(deleted + ids(updated)); insert updated; insert added
ChangeOK(R, A, U, D) ==
  /\ A \cup U # {} \/ D # {}
  /\ \A a \in A : a.id \notin (Ids(R) \ D) /\ a.id \notin Ids(U)        \* live ids stay unique
  /\ \A u \in U : u.id \in Ids(R) /\ u.id \notin D
  /\ D \subseteq Ids(R)
  /\ \A x, y \in A \cup U : x.id = y.id => x = y
  /\ Cardinality({r \in R : r.id \notin D \cup Ids(U)}) + Cardinality(A \cup U) <= MaxRules
Changed(R, A, U, D) == {r \in R : r.id \notin D \cup Ids(U)} \cup U \cup A
ChangedIndex(I, A, U, D) == {e \in I : e.id \notin D \cup Ids(U)} \cup UNION {Entries(cfg, r) : r \in U \cup A}

ChangeSet(h, A, U, D) ==
  /\ "change_set" \in OpKinds /\ nops < MaxOps /\ Exists(h) /\ ChangeOK(live[h], A, U, D)
  /\ live' = [live EXCEPT ![h] = Changed(@, A, U, D)]
  /\ index' = [index EXCEPT ![h] = ChangedIndex(@, A, U, D)]
  /\ ret' = <<>>
  /\ nops' = nops + 1 /\ UNCHANGED <<cfg, forked>>
  /\ Log(Rec("change_set", h, A, D, U))

\* RuleChangeSet::update_existing_router(Arc<Router>): clone router 1, change the clone (handle 2)
Fork(A, U, D) ==
  /\ "fork" \in OpKinds /\ nops < MaxOps /\ ChangeOK(live[1], A, U, D)
  /\ forked' = TRUE
  /\ live' = [live EXCEPT ![2] = Changed(live[1], A, U, D)]
  /\ index' = [index EXCEPT ![2] = ChangedIndex(index[1], A, U, D)]
  /\ ret' = <<>>
  /\ nops' = nops + 1 /\ UNCHANGED cfg
  /\ Log(Rec("fork", 2, A, D, U))

\* Router::cache only compiles regexes: no change of the abstract state
Cache(h) ==
  /\ "cache" \in OpKinds /\ nops < MaxOps /\ Exists(h) /\ live[h] # {}
  /\ ret' = <<>>
  /\ nops' = nops + 1 /\ UNCHANGED <<cfg, live, index, forked>>
  /\ Log(Rec("cache", h, {}, {}, {}))

SmallSets(S) == {{x} : x \in S} \cup {{x, y} : x, y \in S}
Next ==
  \/ \E h \in Handles, r \in Pool : Insert(h, r)
  \/ \E h \in Handles, id \in Ids(Pool) : RemoveRule(h, id)
  \/ \E h \in Handles : \E S \in SmallSets(Ids(Pool)) : BatchRemove(h, S)
  \/ \E h \in Handles : \E a \in Pool, u \in Pool, d \in Ids(Pool) :
        \/ ChangeSet(h, {a}, {}, {}) \/ ChangeSet(h, {}, {u}, {}) \/ ChangeSet(h, {}, {}, {d})
        \/ ChangeSet(h, {a}, {u}, {d}) \/ ChangeSet(h, {a}, {}, {d})
  \/ \E a \in Pool, u \in Pool, d \in Ids(Pool) :
        \/ Fork({a}, {}, {}) \/ Fork({}, {u}, {}) \/ Fork({}, {}, {d}) \/ Fork({a}, {u}, {d}) \/ Fork({}, {}, {})
  \/ \E h \in Handles : Cache(h)
Spec == Init /\ [][Next]_vars

-----------------------------------------------------------------------------
(* Probe requests are centred on the rules: for every rule a WITNESS request that satisfies each
   of its triggers, varied along every dimension that some rule constrains through all the atoms
   of that dimension (so every boundary of every trigger of every rule is probed, in the context
   where the rest of the rule is satisfied), plus the default request.                       *)
Dflt(S) == S[1]
Varies(R, dim) ==
  CASE dim = "scheme" -> \E r \in R : r.scheme # ""
    [] dim = "host"   -> \E r \in R : r.host[1] # "none"
    [] dim = "ip"     -> \E r \in R : r.ips # <<>>
    [] dim = "method" -> \E r \in R : r.methods # <<>>
    [] dim = "hdrs"   -> \E r \in R : r.hdrs # <<>>
    [] dim = "at"     -> \E r \in R : r.dates # <<>> \/ r.times # <<>> \/ r.wds # <<>>
    [] dim = "path"   -> TRUE
Dims == {"scheme", "host", "ip", "method", "hdrs", "at", "path"}
DefaultReq == [scheme |-> ReqUniverse.scheme[1], host |-> ReqUniverse.host[1], ip |-> ReqUniverse.ip[1],
               method |-> ReqUniverse.method[1], hdrs |-> ReqUniverse.hdrs[1], at |-> ReqUniverse.at[1], path |-> ReqUniverse.path[1]]
With(q, d, a) == [q EXCEPT ![d] = a]
DimSat(c, r, d, q) ==
  CASE d = "scheme" -> SchemeSat(r, q) [] d = "host" -> HostSat(c, r, q) [] d = "ip" -> IpsSat(r, q)
    [] d = "method" -> MethodSat(r, q) [] d = "hdrs" -> HeadersSat(c, r, q) [] d = "at" -> DateSat(r, q)
    [] d = "path" -> PathSat(c, r, q)
WitAtom(c, r, d) ==
  LET good == {i \in 1..Len(ReqUniverse[d]) : DimSat(c, r, d, With(DefaultReq, d, ReqUniverse[d][i]))} IN
  IF good = {} THEN ReqUniverse[d][1] ELSE ReqUniverse[d][CHOOSE i \in good : \A j \in good : i <= j]
Witness(c, r) == [scheme |-> WitAtom(c, r, "scheme"), host |-> WitAtom(c, r, "host"), ip |-> WitAtom(c, r, "ip"),
                  method |-> WitAtom(c, r, "method"), hdrs |-> WitAtom(c, r, "hdrs"), at |-> WitAtom(c, r, "at"),
                  path |-> WitAtom(c, r, "path")]
Probes(c, R) ==
  {DefaultReq} \cup UNION { UNION { {With(Witness(c, r), d, a) : a \in ToSet(ReqUniverse[d])} : d \in {x \in Dims : Varies(R, x)} } : r \in R }
\* cheaper variant for long histories: each witness is varied only along the dimensions its own rule constrains
ProbesOwn(c, R) ==
  {DefaultReq} \cup UNION { UNION { {With(Witness(c, r), d, a) : a \in ToSet(ReqUniverse[d])} : d \in {x \in Dims : Varies({r}, x)} } : r \in R }
Mentioned == live[1] \cup live[2]

-----------------------------------------------------------------------------
(* Invariants *)
\* C01: the layered index answers exactly Sat, for every handle and probe
NoMissNoSpurious ==
  \A h \in Handles : \A q \in Probes(cfg, Mentioned) : MatchI(cfg, index[h], q) = MatchP(cfg, live[h], q)
\* C02: the incrementally maintained index is the index of a rebuild
IncrementalEqualsRebuild == \A h \in Handles : index[h] = IndexOf(cfg, live[h])
UniqueIds == \A h \in Handles : \A x, y \in live[h] : x.id = y.id => x = y
\* clone isolation: an operation on one handle never changes the other (action property)
Isolation == [][\A h \in Handles : (hist' # hist /\ hist'[Len(hist')].h # h) => live'[h] = live[h] /\ index'[h] = index[h]]_vars
=============================================================================
