SPECIFICATION Spec
CONSTANTS
  Pool <- PoolGq
  MaxRules = 2
  Codes = {0, 200, 404, 500}
  Overrides = {"none"}
  Scripts <- ScriptsCodes
INVARIANTS FoldMeetsReference AppliedMeetsReference OrderIsTotal OnlyWindowRules Emit
CHECK_DEADLOCK FALSE
