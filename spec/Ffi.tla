-------------------------------- MODULE Ffi --------------------------------
(* The C surface of libredirectionio (src/action/ffi.rs, http/ffi.rs, api/ffi.rs, filter/buffer.rs,
   ffi_helpers.rs), property C18: ownership of every object handed to the caller, and the allocator
   contract.

   Objects handed to C: request, action, filter (body filter), buffer, hmap (header list), string,
   proxies (trusted proxies).  Every entry point has a transfer signature:
     request_create / request_from_str / request_json_deserialize   -> fresh request (or NULL)
     request_json_serialize(r) / action_json_serialize(a) / create_log_in_json(..) -> fresh string
     action_json_deserialize(s)        -> fresh action (or NULL); s stays with the caller
     action_header_filter_filter(a, h) -> fresh hmap; h stays with the caller; a = NULL returns h itself
     action_body_filter_create(a,c,h)  -> fresh filter or NULL
     action_body_filter_filter(f, b)   -> CONSUMES b, fresh buffer; f = NULL: fresh duplicate, b stays
     action_body_filter_close(f)       -> CONSUMES f, fresh buffer;  body_filter_drop(f) CONSUMES f
     request_drop / action_drop / api_buffer_drop                       -> CONSUME their argument
     api_get_rule_api_version()        -> fresh string at every call
     trusted_proxies_add_proxy(p, s)   -> nothing changes hands, p stays valid (also when s does not parse)
   Release disciplines: library drop (request, action, filter, buffer); release by the caller with
   the exact inverse of the allocation (string: CString::from_raw; hmap: Box per node + its two
   strings); never released (proxies: "created once").

   The caller installs a log callback when the process starts (redirectionio_log_init_with_callback): every message is a
   fresh string that belongs to the callback, which releases it before returning (so each message is an allocation by the
   library and a release by the caller inside one call; entry points that log: unparsable proxies, unreadable JSON, ...).

   The allocator contract (checked on recorded traces): a deallocation names a live allocation with
   exactly the layout it was allocated with; no double free; after the caller released everything
   it owns, nothing allocated during the sequence is still live (Quiesce).                     *)
EXTENDS Naturals, Sequences, FiniteSets, TLC

Types == {"request", "action", "filter", "buffer", "hmap", "string", "proxies"}
CONSTANTS MaxCalls, MaxLive, Payloads,     \* Payloads: payload classes for buffers ("empty", "one", "large")
          Focus                            \* entry points explored ({} = all): a focused run goes deeper on a few of them

VARIABLES live,     \* set of [id, ty] owned by the caller
          nextid, ncalls, hist
vars == <<live, nextid, ncalls, hist>>
View == <<live, ncalls, IF hist = <<>> THEN "" ELSE hist[Len(hist)].call>>
\* for focused runs: state + the whole sequence of calls with their arguments (a filter object keeps what it was fed)
ViewCalls == <<live, ncalls, [k \in 1..Len(hist) |-> <<hist[k].call, hist[k].args>>]>>

Init == live = {} /\ nextid = 1 /\ ncalls = 0 /\ hist = <<>>
Of(ty) == {o \in live : o.ty = ty}
Obj(i, ty, k) == [id |-> i, ty |-> ty, k |-> k]
Can == ncalls < MaxCalls
Room(ty) == Cardinality(Of(ty)) < MaxLive
Step(call, args, creates, consumes) ==
  /\ (Focus = {} \/ call \in Focus)
  /\ live' = (live \ consumes) \cup creates
  /\ nextid' = nextid + Cardinality(creates)
  /\ ncalls' = ncalls + 1
  /\ hist' = Append(hist, [call |-> call, args |-> args, creates |-> {o.id : o \in creates}, consumes |-> {o.id : o \in consumes}])
New(ty) == Obj(nextid, ty, "")
NewK(ty, k) == Obj(nextid, ty, k)

\* ---- entry points ---------------------------------------------------------------------------
RequestCreate(kind) == Can /\ Room("request") /\ Step("request_create", <<kind>>, {NewK("request", kind)}, {})
RequestSerialize(r) == Can /\ Room("string") /\ Step("request_json_serialize", <<r.id>>, {New("string")}, {})
RequestDrop(r) == Can /\ Step("request_drop", <<r.id>>, {}, {r})
ActionCreate(kind) == Can /\ Room("action") /\ Step("action_json_deserialize", <<kind>>, {NewK("action", kind)}, {})
ActionSerialize(a) == Can /\ Room("string") /\ Step("action_json_serialize", <<a.id>>, {New("string")}, {})
ActionStatus(a) == Can /\ Step("action_get_status_code", <<a.id>>, {}, {})
ActionLog(a) == Can /\ Step("action_should_log_request", <<a.id>>, {}, {})
ActionDrop(a) == Can /\ Step("action_drop", <<a.id>>, {}, {a})
HmapCreate(kind) == Can /\ Room("hmap") /\ Step("caller_hmap_create", <<kind>>, {NewK("hmap", kind)}, {})
\* a = 0 stands for the NULL action: the input list itself comes back (no new object)
\* add = the caller also asks for the rule-ids header
HeaderFilter(aid, h, add) == Can /\ (aid = 0 \/ Room("hmap")) /\ Step("action_header_filter_filter", <<aid, h.id, add>>,
                                   IF aid = 0 THEN {} ELSE {NewK("hmap", IF add THEN "out_ids" ELSE "out")}, {})
\* only an action that carries body filters yields a filter object; the others answer NULL
\* hid = 0: the caller passes a transient text/html header list of its own (created and released around the call);
\* hid = NoHeaders: a NULL header list; otherwise a live hmap
NoHeaders == 9999
FilterCreate(a, hid) == Can /\ Room("filter") /\ Step("action_body_filter_create", <<a.id, hid>>,
                             \* the filter's kind records whether its HTML stage exists (a text/html content type was given)
                             IF a.k \in {"filters", "html_only"} THEN {NewK("filter", IF hid = 0 \/ \E h \in Of("hmap") : h.id = hid /\ h.k = "html" THEN "html" ELSE "text")} ELSE {}, {})
BufferCreate(p) == Can /\ Room("buffer") /\ Step("caller_buffer_create", <<p>>, {NewK("buffer", p)}, {})
\* f = 0 stands for the NULL filter: the buffer is duplicated and stays with the caller
\* (the answer remembers which payload it was made from: answers to different payloads are different states)
FilterFilter(fid, b) == Can /\ (fid # 0 \/ Room("buffer")) /\ Step("action_body_filter_filter", <<fid, b.id>>, {NewK("buffer", "of_" \o b.k)}, IF fid = 0 THEN {} ELSE {b})
FilterClose(f) == Can /\ Room("buffer") /\ Step("action_body_filter_close", <<f.id>>, {New("buffer")}, {f})
FilterDrop(f) == Can /\ Step("action_body_filter_drop", <<f.id>>, {}, {f})
BufferDrop(b) == Can /\ Step("api_buffer_drop", <<b.id>>, {}, {b})
CreateLog(r, aid) == Can /\ Room("string") /\ Step("api_create_log_in_json", <<r.id, aid>>, {New("string")}, {})
ProxiesCreate == Can /\ Room("proxies") /\ Step("trusted_proxies_create", <<>>, {New("proxies")}, {})
\* adding a proxy (parsable or not) changes no ownership: the object stays valid and with the caller
ProxiesAdd(p, kind) == Can /\ Step("trusted_proxies_add_proxy", <<p.id, kind>>, {}, {})
\* the api version is a fresh string owned by the caller, at every call
ApiVersion == Can /\ Room("string") /\ Step("api_get_rule_api_version", <<>>, {New("string")}, {})
SetRemoteAddr(r, pid) == Can /\ Step("request_set_remote_addr", <<r.id, pid>>, {}, {})
\* the caller releases what has no library drop function with the inverse of its allocation
StringFree(s) == Can /\ Step("caller_string_free", <<s.id>>, {}, {s})
HmapFree(h) == Can /\ Step("caller_hmap_free", <<h.id>>, {}, {h})
\* NULL handed to every drop / query entry point
NullCalls == Can /\ Step("null_calls", <<>>, {}, {})

Next ==
  \/ \E k \in {"create", "from_str", "json", "null_args"} : RequestCreate(k)
  \/ \E r \in Of("request") : RequestSerialize(r) \/ RequestDrop(r) \/ CreateLog(r, 0)
                              \/ (\E a \in Of("action") : CreateLog(r, a.id))
                              \/ SetRemoteAddr(r, 0) \/ (\E p \in Of("proxies") : SetRemoteAddr(r, p.id))
  \* ("html_only": body filters without a text stage: nothing is left to flush when such a filter is closed unfed or after a whole document)
  \/ \E k \in {"redirect", "filters", "empty", "nul", "html_only"} : ActionCreate(k)
  \/ \E a \in Of("action") : ActionSerialize(a) \/ ActionStatus(a) \/ ActionLog(a) \/ ActionDrop(a)
                             \/ FilterCreate(a, 0) \/ FilterCreate(a, NoHeaders) \/ (\E h \in Of("hmap") : FilterCreate(a, h.id) \/ HeaderFilter(a.id, h, FALSE) \/ HeaderFilter(a.id, h, TRUE))
  \/ \E k \in {"empty", "two", "html", "bad"} : HmapCreate(k)
  \/ \E h \in Of("hmap") : HeaderFilter(0, h, FALSE) \/ HmapFree(h)
  \/ \E p \in Payloads : BufferCreate(p)
  \/ \E b \in Of("buffer") : BufferDrop(b) \/ FilterFilter(0, b) \/ (\E f \in Of("filter") : FilterFilter(f.id, b))
  \/ \E f \in Of("filter") : FilterClose(f) \/ FilterDrop(f)
  \/ \E s \in Of("string") : StringFree(s)
  \/ ProxiesCreate \/ NullCalls \/ ApiVersion
  \/ \E p \in Of("proxies"), k \in {"cidr", "bad"} : ProxiesAdd(p, k)
Spec == Init /\ [][Next]_vars

\* ---- ownership invariants -----------------------------------------------------------------
UniqueIds == \A x, y \in live : x.id = y.id => x = y
\* an object is never used after it was consumed, never consumed twice (by construction of the guards:
\* arguments are drawn from `live`); the history shows it
NoUseAfterConsume ==
  \A i, j \in 1..Len(hist) : i < j => \A x \in hist[i].consumes :
        x \notin hist[j].consumes /\ ~\E k \in 1..Len(hist[j].args) : hist[j].args[k] = x /\ hist[j].call \notin {"request_create", "action_json_deserialize", "caller_hmap_create", "caller_buffer_create"}
\* everything the caller owns can be released: the release sequence exists for every type but proxies
Releasable(ty) == ty # "proxies"
=============================================================================
