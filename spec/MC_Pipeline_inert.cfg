SPECIFICATION SpecCases
CONSTANTS
  Cases <- CasesInert
  MaxChunks = 1
INVARIANTS Emit
CHECK_DEADLOCK FALSE
