SPECIFICATION Spec
CONSTANTS
  Clients = {"10.0.0.1", "10.0.0.3:8080", "not an ip", ""}
  ReqHeaders <- ReqPool
  RespHeaders <- RespPool
  MaxH = 2
INVARIANTS ChainSound Emit
CHECK_DEADLOCK FALSE
