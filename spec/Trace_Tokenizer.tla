--------------------------- MODULE Trace_Tokenizer ---------------------------
(* tok {inp, calls = [[t, raw, buf, acc]], hang, panic}: the calls of next() on one input, with the
   raw span, the unread remainder and the outcome of the accessors after each call *)
EXTENDS Tokenizer, Json, IOUtils
TraceLog == ndJsonDeserialize(IOEnv.TRACE)
VARIABLES l
Report(tag, cls) == PrintT(<<tag, l, cls>>)
IsEvent(e) == l <= Len(TraceLog) /\ TraceLog[l].ev = e /\ l' = l + 1
TraceTok ==
  /\ IsEvent("tok")
  /\ LET e == TraceLog[l]
         verdict == IF e.hang THEN "hang" ELSE IF e.panic THEN "panic" ELSE Contract(e.inp, e.calls)
     IN IF verdict = "ok" THEN TRUE ELSE Report("VERDICT", verdict)
  /\ UNCHANGED vars
TracePanic == IsEvent("panic") /\ Report("VERDICT", "panic") /\ UNCHANGED vars
TraceNext == TraceTok \/ TracePanic
TraceSpec == inp = <<>> /\ pos = 0 /\ n = 0 /\ err = FALSE /\ l = 1 /\ [][TraceNext]_<<vars, l>>
Accepted == LET d == TLCGet("stats").diameter IN
            IF d - 1 = Len(TraceLog) THEN PrintT(<<"ACCEPTED", Len(TraceLog)>>)
            ELSE Print(<<"REJECTED", d, IF d <= Len(TraceLog) THEN TraceLog[d].ev ELSE "eof">>, FALSE)
=============================================================================
