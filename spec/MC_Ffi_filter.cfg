\* focused, deeper and path-exhaustive: the life of one body filter (what it was fed decides what it holds and gives back)
SPECIFICATION Spec
CONSTANTS
  MaxCalls = 7
  MaxLive = 2
  Payloads = {"html", "partial"}
  Focus = {"action_json_deserialize", "action_body_filter_create", "caller_buffer_create", "action_body_filter_filter", "action_body_filter_close", "api_buffer_drop"}
VIEW ViewCalls
CONSTRAINT OneFilter
INVARIANTS UniqueIds Emit
CHECK_DEADLOCK FALSE
