SPECIFICATION SpecCases
CONSTANTS
  Cases <- CasesReplayQ
  MaxChunks = 1
INVARIANTS Emit
CHECK_DEADLOCK FALSE
