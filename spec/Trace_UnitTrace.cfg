SPECIFICATION TraceSpec
CONSTANTS
  Targets = {}
  Units = {}
  MaxEvents = 0
POSTCONDITION Accepted
CHECK_DEADLOCK FALSE
