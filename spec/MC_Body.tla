------------------------------- MODULE MC_Body -------------------------------
EXTENDS BodyMachine, BodyCases, Json
CasesA9 == Prod({A9}, {F12})
CasesDocs == Prod(DocsWell \cup DocsMessy, {F20})
SpecDocs == Init /\ [][FALSE]_vars
EmitDoc == PrintT(<<"REPLAY", ToJson([doc |-> cs.doc])>>)
Emit == done => PrintT(<<"REPLAY", ToJson([doc |-> cs.doc, fs |-> cs.fs, sched |-> sched])>>)
=============================================================================
