------------------------------- MODULE MC_Body -------------------------------
EXTENDS BodyMachine, BodyCases, Json
CasesA9 == Prod({A9}, {F12})
Emit == done => PrintT(<<"REPLAY", ToJson([doc |-> cs.doc, fs |-> cs.fs, sched |-> sched])>>)
=============================================================================
