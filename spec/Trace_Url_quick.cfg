SPECIFICATION TraceSpec
CONSTANTS
  Urls <- UrlsQuick
  Cfgs <- CfgsAll
POSTCONDITION Accepted
CHECK_DEADLOCK FALSE
