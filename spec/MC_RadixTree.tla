---------------------------- MODULE MC_RadixTree ----------------------------
EXTENDS RadixTree, Json, RadixProbes

P6 == { <<"/", "a">>, <<"/", "a", "/", "b">>, <<"/", "a", "/", "LOW">>, <<"/", "LOW", "/", "b">>, <<"/", "b">>, <<"/", "a", "AS">> }
P10 == P6 \cup { <<"/", "ANY">>, <<"LOW", ".", "a">>, <<"/", "a", "ASP">>, <<"/", "a", "/", "NS", "/", "b">> }
P12 == P10 \cup { <<"/", "a", "/", "NEST">>, <<"/", "OPT", "b">> }
PCls == { <<"/", "a", "/", "CLS", "/", "a">>, <<"/", "a", "/", "CLS", "/", "b">>, <<"/", "a">>, <<"/", "a", "/", "CLB">>, <<"/", "a", "/", "CLB", "b">> }
P8 == P6 \cup { <<"/", "a", "/", "CLS", "/", "b">>, <<"/", "a", "/", "CLS", "/", "a">> }
P16 == P12 \cup PCls
\* quick pool: splits, collapses, groups, a class with a parenthesis, upper-case literals (case-insensitive trees)
PQ == { <<"/", "a">>, <<"/", "a", "/", "b">>, <<"/", "a", "/", "LOW">>, <<"/", "LOW", "/", "b">>, <<"/", "a", "AS">>,
        <<"/", "A", "/", "LOW">>, <<"/", "A", "/", "b">>, <<"/", "a", "/", "CLS", "/", "b">> }
PUp == P12 \cup PCls \cup { <<"/", "A", "/", "LOW">>, <<"/", "A", "/", "b">>, <<"/", "A", "LOW">> }
PQCls == PQ \cup PCls

\* non-ASCII text in the shared prefix, as a literal and inside a group (character count # byte count)
PNa == { <<"/", "~e~", "/", "a">>, <<"/", "~e~", "/", "b">>, <<"/", "~e~", "/", "LOW">>, <<"/", "ELW", "/", "a">>, <<"/", "ELW", "/", "b">>, <<"/", "a">>, <<"/", "~u~", "/", "a">> }
\* an expression whose compiled program takes several MiB (lazy and warmed evaluation must build it with the same limits)
PBig == { <<"/", "a", "/", "BIGW">>, <<"/", "a", "/", "b">>, <<"/", "BIGW">>, <<"/", "a", "/", "BAD">>, <<"/", "a", "/", "CLS">> }
ProbesBig == { <<>>, <<"/", "a", "/", "a", "b">>, <<"/", "a", "/", "b">>, <<"/", "a", "/", "~e~">>, <<"/", "a", "/", "a", "/">>, <<"/", "a", "b">> }
ProbesNa == { <<>>, <<"/", "~e~", "/", "a">>, <<"/", "~e~", "/", "b">>, <<"/", "~e~", "/", "a", "b">>, <<"/", "~e~", "/">>, <<"/", "~e~", "a", "/", "a">>,
              <<"/", "~e~", "b", "a", "/", "b">>, <<"/", "a">>, <<"/", "~e~", "/", "A">>, <<"/", "e", "/", "a">>, <<"/", "~e~", "a", "/", "a", "/">>, <<"/", "~u~", "/", "a">>, <<"/", "~u~", "/", "b">> }
\* case-insensitive trees emptied and refilled (the case flag must survive every way of emptying)
PCase == { <<"/", "A", "/", "LOW">>, <<"/", "a", "/", "b">>, <<"/", "A", "/", "b">> }
ProbesCase == { <<>>, <<"/", "a">>, <<"/", "A">>, <<"/", "a", "/", "b">>, <<"/", "A", "/", "B">>, <<"/", "a", "/", "a", "b">>, <<"/", "A", "/", "A">>, <<"/", "a", "/", "B">> }
\* sibling subtrees that accept the same string: /a/LOW/{a,b} next to /a/b/{a,AS}
PSib == { <<"/", "a", "/", "LOW", "/", "a">>, <<"/", "a", "/", "LOW", "/", "b">>, <<"/", "a", "/", "b", "/", "a">>, <<"/", "a", "/", "b", "/", "AS">>, <<"/", "a", "/", "b">> }
ProbesSib == { <<>>, <<"/", "a", "/", "b", "/", "a">>, <<"/", "a", "/", "b", "/", "b">>, <<"/", "a", "/", "a", "/", "a">>, <<"/", "a", "/", "b">>, <<"/", "a", "/", "b", "/", "a", "a">>,
               <<"/", "a", "/", "a", "b", "/", "b">>, <<"/", "a", "/", "b", "/">> }
\* five insertions under one prefix, one pattern nested under another: trees three levels deep whose inner node is the last child
\* ("/a/" [ A, "/a/b/" [ b, "/a/b/a" [ a, a/b ] ], . ] : two prefix levels and a pattern nested under another)
PNest == { <<"/", "a", "/", "b", "/", "a">>, <<"/", "a", "/", "b", "/", "b">>, <<"/", "a", "/", "A">>, <<"/", "a", "/", "b", "/", "a", "/", "b">>, <<"/", "a", "/", ".">> }
ProbesNest == { <<>>, <<"/", "a", "/", "b", "/", "a">>, <<"/", "a", "/", "b", "/", "b">>, <<"/", "a", "/", "A">>, <<"/", "a", "/", "b", "/", "a", "/", "b">>, <<"/", "a", "/", ".">>, <<"/", "a", "/", "b", "/">> }
\* (the nest universe is cut down to insertion orders: every pattern has its own id, every operation but the last is an insertion)
NestSeq == SetToSeq(PNest)
IdOfPat(p) == "i" \o ToString(CHOOSE k \in 1..Len(NestSeq) : NestSeq[k] = p)
NestOnly == /\ \A e \in live : e[2] = IdOfPat(e[1])
            /\ \A k \in 1..(Len(hist) - 1) : hist[k].op = "insert"
\* deeper histories on three patterns under one node (warm-up, then retain / remove below a node that survives)
PDeep == { <<"/", "a", "/", "b">>, <<"/", "a", "/", "LOW">>, <<"/", "a", "AS">> }
ProbesDeep == { <<>>, <<"/", "a", "/", "b">>, <<"/", "a", "/", "a">>, <<"/", "a", "a">>, <<"/", "a">>, <<"/", "a", "/", "a", "b">> }
RECURSIVE Strs(_,_)
Strs(n, A) == IF n = 0 THEN {<<>>} ELSE LET S == Strs(n - 1, A) IN S \cup {Append(s, c) : s \in {x \in S : Len(x) = n - 1}, c \in A}
H4 == Strs(4, {"a", "b", "/", "."})
H4c == Strs(4, {"a", "b", "/", "A"})
H5 == Strs(5, {"a", "b", "/", "."}) \cup {<<"/","a","/","a","/","b">>, <<"/","a","/","b","/","b">>, <<"/","a","/","/","/","b">>}

RECURSIVE JoinStr(_,_)
JoinStr(s, i) == IF i > Len(s) THEN "" ELSE s[i] \o JoinStr(s, i + 1)
PatStr(p) == JoinStr(ConcSeq(p), 1)
OpJson(o) == [op |-> o.op, p |-> o.p, pat |-> PatStr(o.p), id |-> o.id, ver |-> o.ver, keep |-> o.keep, limit |-> o.limit, level |-> o.level]
Emit == nops = MaxOps => PrintT(<<"REPLAY", ToJson([ic |-> ic, ops |-> [i \in 1..Len(hist) |-> OpJson(hist[i])]])>>)
\* printed once: the probe strings and the pattern table the harness needs
RxCases == PrintT(<<"RXCASES", ToJson(SetToSeq({[ic |-> i, p |-> p, pat |-> PatStr(p)] : p \in Patterns, i \in IgnoreCase}))>>)
Universe == PrintT(<<"UNIVERSE", ToJson([probes |-> SetToSeq(Haystacks), pats |-> SetToSeq({<<p, PatStr(p)>> : p \in Patterns})])>>)
ASSUME Universe /\ RxCases
=============================================================================
