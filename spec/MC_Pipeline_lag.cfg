SPECIFICATION Spec
CONSTANTS
  Cases <- CasesLag
  MaxChunks = 3
INVARIANTS CodecTransparent GateClosed ScheduleExplains
CHECK_DEADLOCK FALSE
