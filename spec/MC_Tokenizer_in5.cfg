SPECIFICATION SpecInputs
CONSTANTS
  Inputs <- InputsDef
  MaxLen = 5
  AlphaName = "markup"
INVARIANTS Emit
CHECK_DEADLOCK FALSE
