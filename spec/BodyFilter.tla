----------------------------- MODULE BodyFilter -----------------------------
(* Streaming body filters of libredirectionio (src/filter/filter_body.rs, html_filter_body.rs,
   html_body_action, text_filter_body.rs).

   A document is a sequence of LEXEMES, each cut into UNITS (strings); a chunk schedule delivers
   the units in consecutive groups.  An output is a sequence of unit references <<i, j>> (unit j
   of lexeme i) and inserted values <<0, k>> (the value of filter k), so "nothing lost, nothing
   duplicated, nothing reordered" is exact.

   Layer I (code shaped): per chunk every HTML stage runs a FRESH, context-free tokenizer over
        last_buffer \o chunk (Scan): a partial tag is held, a lone "<" is held together with the
        text before it, text containing "<" is held when nothing complete follows it, a markup
        declaration truncated by the chunk end is emitted as it is (class D1), raw-text context
        lives only inside one run (class D2); the enter / leave / position machine of the three
        visitors, the buffer stack, selector-driven re-tokenisation (append_child / prepend_child),
        text stages, the chain (do_filter with its early break, do_end cascading end()), end().
   Layer P: ChunkInvariant (C03), Conservation / ReplaceSpansOnly / PassThroughWhenInert (C04),
        RefEdit (C15, module RefEdit).

   lexeme: [k, n, us, sel]
     k    "text" | "textlt" (text containing a bare "<") | "stag" | "etag" | "sc" | "copen" |
          "cclose" | "ptag" (tag truncated by the end of the document)
     n    tag name (lower case) for tags, "" otherwise
     us   the units (strings) whose concatenation is the lexeme's text
     sel  the element carries the attribute the selector of the filters looks for
   filter: [act, path, sel, value]   act in append / prepend / replace / text_append /
          text_prepend / text_replace; sel = "none" | "x" (.x) | N (N.x)               *)
EXTENDS Naturals, Sequences, FiniteSets, TLC, SequencesExt

Void == {"area", "base", "br", "col", "embed", "hr", "img", "input", "link", "meta", "param", "source", "track", "wbr"}
RawEls == {"script", "title", "style", "textarea", "xmp", "iframe", "noembed", "noframes", "plaintext"}
TagLike == {"stag", "etag", "sc"}
None == "-"

ULen(L) == Len(L.us)
RECURSIVE UnitsFrom(_,_)
UnitsFrom(d, i) == IF i > Len(d) THEN <<>> ELSE [j \in 1..ULen(d[i]) |-> <<i, j>>] \o UnitsFrom(d, i + 1)
AllUnits(d) == UnitsFrom(d, 1)

-----------------------------------------------------------------------------
(* Tokenizer abstraction: one fresh run over the pending units p of document d *)
Lx(d, u) == d[u[1]]
\* last index of the run of consecutive units of one lexeme that starts at a
RunEnd(p, a) == CHOOSE b \in a..Len(p) :
                  /\ \A x \in a..b : p[x] = <<p[a][1], p[a][2] + (x - a)>>
                  /\ (b < Len(p) => p[b + 1] # <<p[a][1], p[a][2] + (b + 1 - a)>>)
IsTagStartAt(d, p, a) == a <= Len(p) /\ p[a][1] > 0 /\ p[a][2] = 1 /\ Lx(d, p[a]).k \in TagLike \cup {"copen", "ptag"}
Complete(d, p, a) == p[a][1] > 0 /\ p[a][2] = 1 /\ RunEnd(p, a) - a + 1 = ULen(Lx(d, p[a]))

Tok(t, n, us) == [t |-> t, n |-> n, us |-> us]

RECURSIVE FindClose(_,_,_)
FindClose(d, p, a) ==
  IF a > Len(p) THEN 0
  ELSE IF p[a][1] > 0 /\ Lx(d, p[a]).k = "cclose" /\ Complete(d, p, a) THEN a
  ELSE FindClose(d, p, RunEnd(p, a) + 1)

RECURSIVE FindEnd(_,_,_,_)
FindEnd(d, p, a, n) ==
  IF a > Len(p) THEN 0
  ELSE IF p[a][1] > 0 /\ Lx(d, p[a]).k = "etag" /\ Lx(d, p[a]).n = n /\ Complete(d, p, a) THEN a
  ELSE FindEnd(d, p, RunEnd(p, a) + 1, n)

\* does the unit range contain a "<" ?
HasLt(d, p, a, b) == \E x \in a..b : p[x][1] > 0 /\ (Lx(d, p[x]).k \in TagLike \cup {"copen", "ptag", "textlt"})

RECURSIVE Scan(_,_,_)
RECURSIVE ScanRaw(_,_,_,_)
Res(toks, held, dv) == [toks |-> toks, held |-> held, dev |-> dv]
PushTok(tok, r) == Res(<<tok>> \o r.toks, r.held, r.dev)

\* a text token made of the runs a..b; the filter holds it back (with everything after it) when it
\* contains "<" and no complete token follows
TextOrHold(d, p, a, b, next) ==
  LET lone == b + 1 = Len(p) /\ IsTagStartAt(d, p, b + 1) /\ ULen(Lx(d, p[b + 1])) > 1   \* "<" alone at the end
      haslt == HasLt(d, p, a, b) \/ lone
      nothingAfter == b = Len(p) \/ lone \/ (b < Len(p) /\ IsTagStartAt(d, p, b + 1) /\ ~Complete(d, p, b + 1)
                                             /\ RunEnd(p, b + 1) = Len(p))
  IN IF haslt /\ nothingAfter THEN Res(<<>>, SubSeq(p, a, Len(p)), {})
     ELSE PushTok(Tok("text", "", SubSeq(p, a, b)), next)

Scan(d, p, a) ==
  IF a > Len(p) THEN Res(<<>>, <<>>, {})
  ELSE LET u == p[a] b == RunEnd(p, a) IN
  IF u[1] = 0 THEN PushTok(Tok("text", "", <<u>>), Scan(d, p, a + 1))        \* an inserted value (plain text)
  ELSE LET L == Lx(d, u) IN
  IF u[2] # 1 \/ L.k \in {"text", "textlt", "cclose"} THEN
      \* text, or the orphan remainder of a lexeme whose beginning was already consumed
      TextOrHold(d, p, a, b, Scan(d, p, b + 1))
  ELSE IF L.k = "ptag" THEN Res(<<>>, SubSeq(p, a, Len(p)), {})
  ELSE IF L.k \in TagLike THEN
      IF Complete(d, p, a)
      THEN IF L.k = "stag" /\ L.n \in RawEls
           THEN PushTok(Tok(L.k, L.n, SubSeq(p, a, b)), ScanRaw(d, p, b + 1, L.n))
           ELSE PushTok(Tok(L.k, L.n, SubSeq(p, a, b)), Scan(d, p, b + 1))
      ELSE Res(<<>>, SubSeq(p, a, Len(p)), {})
  ELSE \* copen
      IF b - a + 1 < 2 /\ b = Len(p) /\ ULen(L) > 1 THEN Res(<<>>, SubSeq(p, a, Len(p)), {})
      ELSE LET c == FindClose(d, p, b + 1) IN
           IF c = 0 THEN Res(<<Tok("comment", "", SubSeq(p, a, Len(p)))>>, <<>>, {"D1_cut_in_markup_declaration"})
           ELSE PushTok(Tok("comment", "", SubSeq(p, a, RunEnd(p, c))), Scan(d, p, RunEnd(p, c) + 1))

ScanRaw(d, p, a, n) ==
  IF a > Len(p) THEN Res(<<>>, <<>>, {"D2_cut_in_raw_text"})
  ELSE LET e == FindEnd(d, p, a, n) IN
       IF e = a THEN Scan(d, p, a)
       ELSE IF e # 0 THEN
              \* the raw text is one text token; it usually contains "<" and is followed by its end tag
              PushTok(Tok("text", "", SubSeq(p, a, e - 1)), Scan(d, p, e))
       ELSE IF HasLt(d, p, a, Len(p))
            THEN Res(<<>>, SubSeq(p, a, Len(p)), {"D2_cut_in_raw_text"})
            ELSE Res(<<Tok("text", "", SubSeq(p, a, Len(p)))>>, <<>>, {"D2_cut_in_raw_text"})

-----------------------------------------------------------------------------
(* Visitors: the enter / leave / position machine *)
IsHtml(f) == f.act \in {"append", "prepend", "replace"}
InitStage(f) == IF IsHtml(f)
                THEN [f |-> f, enter |-> f.path[1], leave |-> None, pos |-> 1, vbuf |-> FALSE, bufs |-> <<>>, last |-> <<>>, exec |-> FALSE]
                ELSE [f |-> f, enter |-> None, leave |-> None, pos |-> 1, vbuf |-> FALSE, bufs |-> <<>>, last |-> <<>>, exec |-> FALSE]
\* ("empty" is the empty selector string, the serialised form of "no selector")
HasSel(f) == f.sel \notin {"none", "empty"}
PLen(st) == Len(st.f.path)

VEnter(st, data, val) ==
  LET f == st.f nl == f.path[st.pos] IN
  IF st.pos + 1 <= PLen(st)
  THEN [st |-> [st EXCEPT !.pos = st.pos + 1, !.enter = f.path[st.pos + 1], !.leave = nl], sb |-> FALSE, data |-> data]
  ELSE CASE f.act = "append" ->
              [st |-> [st EXCEPT !.enter = None, !.leave = nl], sb |-> HasSel(f), data |-> data]
         [] f.act = "prepend" ->
              IF ~HasSel(f)
              THEN [st |-> [st EXCEPT !.enter = None, !.leave = nl], sb |-> st.vbuf, data |-> data \o <<val>>]
              ELSE [st |-> [st EXCEPT !.enter = None, !.leave = nl, !.vbuf = TRUE], sb |-> TRUE, data |-> data]
         [] f.act = "replace" ->
              [st |-> [st EXCEPT !.enter = None, !.leave = nl, !.vbuf = TRUE], sb |-> TRUE, data |-> data]

\* scraper::Html::parse_fragment(data).select(selector): some element of the data carries the attribute
\* selector "x" is the class selector .x; any other value N is the type + class selector N.x (type selectors are
\* case-insensitive on HTML elements: lexeme names are the lower-cased names)
SelHit(f, lx) == lx.sel /\ (f.sel = "x" \/ lx.n = f.sel)
SelMatch(f, d, data) == \E x \in 1..Len(data) : data[x][1] > 0 /\ data[x][2] = 1 /\ Lx(d, data[x]).k \in {"stag", "sc"} /\ SelHit(f, Lx(d, data[x]))

\* append_child(content, child): re-tokenise the buffered element, insert before the end tag that
\* brings the nesting level back to 0
RECURSIVE AppendAt(_,_,_,_)
AppendAt(toks, i, level, acc) ==
  IF i > Len(toks) THEN 0
  ELSE LET t == toks[i]
           l1 == IF t.t = "stag" /\ t.n \notin Void THEN level + 1 ELSE IF t.t = "etag" THEN level - 1 ELSE level
       IN IF t.t = "etag" /\ l1 = 0 THEN acc + 1
          ELSE AppendAt(toks, i + 1, l1, acc + Len(t.us))
AppendChild(d, data, val) ==
  LET r == Scan(d, data, 1) k == AppendAt(r.toks, 1, 0, 0) IN
  IF k = 0 THEN data ELSE SubSeq(data, 1, k - 1) \o <<val>> \o SubSeq(data, k, Len(data))
RECURSIVE PrependAt(_,_,_)
PrependAt(toks, i, acc) ==
  IF i > Len(toks) THEN 0
  ELSE IF toks[i].t = "stag" THEN acc + Len(toks[i].us) + 1 ELSE PrependAt(toks, i + 1, acc + Len(toks[i].us))
PrependChild(d, data, val) ==
  LET r == Scan(d, data, 1) k == PrependAt(r.toks, 1, 0) IN
  IF k = 0 THEN data ELSE SubSeq(data, 1, k - 1) \o <<val>> \o SubSeq(data, k, Len(data))

VLeave(d, st, data, val) ==
  LET f == st.f
      ne == f.path[st.pos]
      proc == st.pos + 1 > PLen(st)
  IN CASE f.act = "append" ->
            LET st1 == IF st.pos > 1 THEN [st EXCEPT !.pos = st.pos - 1, !.enter = ne, !.leave = f.path[st.pos - 1]]
                                     ELSE [st EXCEPT !.enter = ne, !.leave = None]
            IN IF proc THEN IF HasSel(f)
                            THEN [st |-> st1, data |-> IF ~SelMatch(f, d, data) THEN AppendChild(d, data, val) ELSE data]
                            ELSE [st |-> st1, data |-> <<val>> \o data]
               ELSE [st |-> st1, data |-> data]
       [] f.act = "prepend" ->
            LET st1 == IF st.pos > 1 THEN [st EXCEPT !.pos = st.pos - 1, !.enter = ne, !.leave = f.path[st.pos - 1]]
                                     ELSE [st EXCEPT !.enter = ne, !.leave = None]
            IN IF st.vbuf /\ HasSel(f)
               THEN [st |-> [st1 EXCEPT !.vbuf = FALSE], data |-> IF ~SelMatch(f, d, data) THEN PrependChild(d, data, val) ELSE data]
               ELSE [st |-> st1, data |-> data]
       [] f.act = "replace" ->
            LET st1 == IF st.pos > 1 /\ ~st.vbuf THEN [st EXCEPT !.pos = st.pos - 1, !.enter = ne, !.leave = f.path[st.pos - 1]]
                                                 ELSE [st EXCEPT !.enter = ne, !.leave = None]
            IN IF st.vbuf
               THEN [st |-> [st1 EXCEPT !.vbuf = FALSE],
                     data |-> IF ~HasSel(f) \/ SelMatch(f, d, data) THEN <<val>> ELSE data]
               ELSE [st |-> st1, data |-> data]

OnStart(st, name, data, val) ==
  IF st.enter = name
  THEN LET r == VEnter(st, data, val) IN
       [st |-> IF r.sb THEN [r.st EXCEPT !.bufs = Append(r.st.bufs, [tag |-> name, buf |-> <<>>])] ELSE r.st,
        data |-> r.data]
  ELSE [st |-> st, data |-> data]

OnEnd(d, st, name, data, val) ==
  LET top == IF st.bufs # <<>> THEN st.bufs[Len(st.bufs)] ELSE [tag |-> None, buf |-> <<>>]
      mine == st.bufs # <<>> /\ top.tag = name
      buffer == IF mine THEN top.buf \o data ELSE data
      r == IF st.leave = name THEN VLeave(d, st, buffer, val) ELSE [st |-> st, data |-> buffer]
  IN [st |-> IF mine THEN [r.st EXCEPT !.bufs = SubSeq(r.st.bufs, 1, Len(r.st.bufs) - 1)] ELSE r.st,
      data |-> r.data]

Deliver(st, data, emitted) ==
  IF st.bufs # <<>>
  THEN [st |-> [st EXCEPT !.bufs[Len(st.bufs)].buf = @ \o data], em |-> emitted]
  ELSE [st |-> st, em |-> emitted \o data]

ProcTok(d, st, tok, val, emitted) ==
  LET r == CASE tok.t = "stag" ->
                  LET r1 == OnStart(st, tok.n, tok.us, val) IN
                  IF tok.n \in Void THEN OnEnd(d, r1.st, tok.n, r1.data, val) ELSE r1
             [] tok.t = "etag" -> OnEnd(d, st, tok.n, tok.us, val)
             [] tok.t = "sc" -> LET r1 == OnStart(st, tok.n, tok.us, val) IN OnEnd(d, r1.st, tok.n, r1.data, val)
             [] OTHER -> [st |-> st, data |-> tok.us]
  IN Deliver(r.st, r.data, emitted)

RECURSIVE ProcToks(_,_,_,_,_,_)
ProcToks(d, st, toks, i, val, emitted) ==
  IF i > Len(toks) THEN [st |-> st, em |-> emitted]
  ELSE LET r == ProcTok(d, st, toks[i], val, emitted) IN ProcToks(d, r.st, toks, i + 1, val, r.em)

\* one stage consumes input units; returns [st, em, dev]
HtmlStageFilter(d, st, k, input) ==
  LET sc == Scan(d, st.last \o input, 1)
      r == ProcToks(d, st, sc.toks, 1, <<0, k>>, <<>>)
  IN [st |-> [r.st EXCEPT !.last = sc.held], em |-> r.em, dev |-> sc.dev]
\* TextFilterBodyAction::filter
TextStageFilter(st, k, input) ==
  CASE st.f.act = "text_append"  -> [st |-> st, em |-> input, dev |-> {}]
    [] st.f.act = "text_prepend" -> IF st.exec THEN [st |-> st, em |-> input, dev |-> {}]
                                    ELSE [st |-> [st EXCEPT !.exec = TRUE], em |-> <<<<0, k>>>> \o input, dev |-> {}]
    [] st.f.act = "text_replace" -> IF st.exec THEN [st |-> st, em |-> <<>>, dev |-> {}]
                                    ELSE [st |-> [st EXCEPT !.exec = TRUE], em |-> <<<<0, k>>>>, dev |-> {}]
StageFilter(d, st, k, input) == IF IsHtml(st.f) THEN HtmlStageFilter(d, st, k, input) ELSE TextStageFilter(st, k, input)

\* HtmlFilterBodyAction::end: the element buffers outermost -> innermost, then last_buffer
RECURSIVE FwdBufs(_,_)
FwdBufs(bufs, i) == IF i > Len(bufs) THEN <<>> ELSE bufs[i].buf \o FwdBufs(bufs, i + 1)
StageEnd(st, k) == IF IsHtml(st.f) THEN FwdBufs(st.bufs, 1) \o st.last
                   ELSE IF st.exec THEN <<>> ELSE <<<<0, k>>>>
AfterEnd(st) == IF IsHtml(st.f) THEN st ELSE [st EXCEPT !.exec = TRUE]

\* FilterBodyAction::do_filter over the chain (stops as soon as a stage outputs nothing)
RECURSIVE ChainFilter(_,_,_,_,_)
ChainFilter(d, sts, k, data, dv) ==
  IF k > Len(sts) THEN [sts |-> sts, em |-> data, dev |-> dv]
  ELSE LET r == StageFilter(d, sts[k], k, data) IN
       IF r.em = <<>> THEN [sts |-> [sts EXCEPT ![k] = r.st], em |-> <<>>, dev |-> dv \cup r.dev]
       ELSE ChainFilter(d, [sts EXCEPT ![k] = r.st], k + 1, r.em, dv \cup r.dev)

\* FilterBodyAction::do_end
RECURSIVE ChainEnd(_,_,_,_)
ChainEnd(d, sts, k, data) ==
  IF k > Len(sts) THEN data
  ELSE IF data = <<>> THEN ChainEnd(d, sts, k + 1, StageEnd(sts[k], k))
  ELSE LET r == StageFilter(d, sts[k], k, data) IN ChainEnd(d, sts, k + 1, r.em \o StageEnd(r.st, k))

InitStages(fs) == [k \in 1..Len(fs) |-> InitStage(fs[k])]

\* the whole document in one chunk, then end()
RunWhole(doc, fs) ==
  LET r == ChainFilter(doc, InitStages(fs), 1, AllUnits(doc), {}) IN r.em \o ChainEnd(doc, r.sts, 1, <<>>)

\* the document delivered by the schedule sch (sequence of unit counts, possibly 0), then end()
RECURSIVE RunSched(_,_,_,_,_,_)
RunSched(doc, sts, sch, i, fed, acc) ==
  IF i > Len(sch) THEN [out |-> acc.out \o ChainEnd(doc, sts, 1, <<>>), dev |-> acc.dev]
  ELSE LET n == sch[i]
           r == ChainFilter(doc, sts, 1, SubSeq(AllUnits(doc), fed + 1, fed + n), {})
           last == fed + n = Len(AllUnits(doc)) /\ \A j \in (i + 1)..Len(sch) : sch[j] = 0
       IN RunSched(doc, r.sts, sch, i + 1, fed + n, [out |-> acc.out \o r.em, dev |-> acc.dev \cup (IF last THEN {} ELSE r.dev)])
RunChunked(doc, fs, sch) == RunSched(doc, InitStages(fs), sch, 1, 0, [out |-> <<>>, dev |-> {}])
\* the same, but the units not yet delivered when the stream ends enter through do_end (a decoder's end())
RECURSIVE RunSchedEnd(_,_,_,_,_,_)
RunSchedEnd(doc, sts, sch, i, fed, acc) ==
  IF i > Len(sch) THEN acc \o ChainEnd(doc, sts, 1, SubSeq(AllUnits(doc), fed + 1, Len(AllUnits(doc))))
  ELSE LET r == ChainFilter(doc, sts, 1, SubSeq(AllUnits(doc), fed + 1, fed + sch[i]), {}) IN
       IF sch[i] = 0 THEN RunSchedEnd(doc, sts, sch, i + 1, fed, acc)      \* nothing surfaced: the stages are not called
       ELSE RunSchedEnd(doc, r.sts, sch, i + 1, fed + sch[i], acc \o r.em)
RunChunkedEnd(doc, fs, sch) == RunSchedEnd(doc, InitStages(fs), sch, 1, 0, <<>>)

-----------------------------------------------------------------------------
(* Rendering to strings (the bytes the real filter sees and produces) *)
UnitStr(doc, fs, u) == IF u[1] = 0 THEN fs[u[2]].value ELSE doc[u[1]].us[u[2]]
RECURSIVE Render(_,_,_,_)
Render(doc, fs, s, i) == IF i > Len(s) THEN "" ELSE UnitStr(doc, fs, s[i]) \o Render(doc, fs, s, i + 1)
DocStr(doc) == Render(doc, <<>>, AllUnits(doc), 1)
Strip(s) == SelectSeq(s, LAMBDA u : u[1] > 0)
InsertOnly(fs) == \A k \in 1..Len(fs) : fs[k].act \in {"append", "prepend", "text_append", "text_prepend"}
=============================================================================
