SPECIFICATION SpecDocs
CONSTANTS
  Cases <- CasesDocs
  MaxChunks = 1
INVARIANTS EmitDoc
CHECK_DEADLOCK FALSE
