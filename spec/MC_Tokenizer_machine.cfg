SPECIFICATION Spec
CONSTANTS
  Inputs <- InputsDef
  MaxLen = 3
  AlphaName = "small"
INVARIANTS TokenBound Lossless
CHECK_DEADLOCK FALSE
