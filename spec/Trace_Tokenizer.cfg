SPECIFICATION TraceSpec
CONSTANTS
  Inputs = {}
POSTCONDITION Accepted
CHECK_DEADLOCK FALSE
