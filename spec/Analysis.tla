------------------------------ MODULE Analysis ------------------------------
(* Redirect-chain analysis (src/api/redirection_loop.rs), part of property C19.

   A redirect GRAPH maps every URL of the project to what the rules answer for it:
   [code, to]: code in {301, 302, 307, 308} redirects to `to`; any other code ends the chain.
   The analysis follows the chain from (start, method) for at most maxh hops.

   Layer I: the loop as coded (hop i: request, status, Location joined to the current URL,
            301/302 turn the method into GET, loop test against all earlier hops, push, domain
            cut-off, hop limit).
   Layer P: |hops| <= maxh + 1;  error = Loop  <=>  the last hop repeats an earlier (url, method);
            consecutive hops follow the graph; no hop before the last repeats an earlier one.   *)
EXTENDS Naturals, Sequences, FiniteSets, TLC

CONSTANTS Project,       \* URLs served by the project's rules (strings)
          External,      \* URLs outside the project (never redirect; cut the chain when domains are configured)
          Codes,         \* codes a rule may answer
          MaxHopsSet, Methods

Redirects == {301, 302, 307, 308}
All == Project \cup External
Edge == [code : Codes, to : All]

VARIABLES g, domains, maxh, hops, cur, curm, i, err, done
vars == <<g, domains, maxh, hops, cur, curm, i, err, done>>
Hop(u, c, m) == [url |-> u, code |-> c, method |-> m]

Init == /\ g \in [Project -> Edge] /\ domains \in BOOLEAN /\ maxh \in MaxHopsSet
        /\ cur \in Project /\ curm \in Methods
        /\ hops = <<Hop(cur, 0, curm)>> /\ i = 1 /\ err = "none" /\ done = FALSE

\* one iteration of the `for i in 1..=max_hops` loop
Step ==
  /\ ~done
  /\ IF i > maxh THEN done' = TRUE /\ UNCHANGED <<hops, cur, curm, i, err>>
     ELSE LET e == IF cur \in Project THEN g[cur] ELSE [code |-> 200, to |-> cur] IN
          IF e.code \notin Redirects THEN done' = TRUE /\ UNCHANGED <<hops, cur, curm, i, err>>
          ELSE LET nu == e.to
                   nm == IF e.code \in {301, 302} THEN "GET" ELSE curm
                   e1 == IF i > 1 THEN "AtLeastOneHop" ELSE err
                   rep == \E j \in 1..Len(hops) : hops[j].url = nu /\ hops[j].method = nm
               IN /\ hops' = Append(hops, Hop(nu, e.code, nm))
                  /\ cur' = nu /\ curm' = nm
                  /\ IF rep THEN err' = "Loop" /\ done' = TRUE /\ i' = i
                     ELSE IF domains /\ nu \in External THEN err' = e1 /\ done' = TRUE /\ i' = i
                     ELSE IF i >= maxh THEN err' = "TooManyHops" /\ done' = TRUE /\ i' = i
                     ELSE err' = e1 /\ done' = FALSE /\ i' = i + 1
  /\ UNCHANGED <<g, domains, maxh>>
Next == Step
Spec == Init /\ [][Next]_vars

-----------------------------------------------------------------------------
(* Layer P, also used as the check of a recorded result: returns "" or the violated clause *)
Repeats(h, k) == \E j \in 1..(k - 1) : h[j].url = h[k].url /\ h[j].method = h[k].method
LoopRef(h, e, mh) ==
  IF Len(h) > mh + 1 THEN "hop_limit_exceeded"
  ELSE IF (e = "Loop") # (Len(h) >= 2 /\ Repeats(h, Len(h))) THEN "loop_iff_repeat"
  ELSE IF \E k \in 2..(Len(h) - 1) : Repeats(h, k) THEN "repeat_not_reported"
  ELSE ""
FollowsGraph(gr, h) ==
  \A k \in 1..(Len(h) - 1) :
     /\ h[k].url \in DOMAIN gr /\ gr[h[k].url].code \in Redirects
     /\ h[k + 1].url = gr[h[k].url].to /\ h[k + 1].code = gr[h[k].url].code
     /\ h[k + 1].method = (IF gr[h[k].url].code \in {301, 302} THEN "GET" ELSE h[k].method)
\* the chain only stops early for a reason: end of redirects, loop, external domain, limit
StopsForAReason(gr, dm, h, e, mh) ==
  LET lastu == h[Len(h)].url IN
  \/ e = "Loop" \/ Len(h) = mh + 1
  \/ lastu \notin DOMAIN gr \/ gr[lastu].code \notin Redirects

HopBound == Len(hops) <= maxh + 1
LoopIffRepeat == done => LoopRef(hops, err, maxh) = ""
ChainFollowsGraph == FollowsGraph(g, hops)
StopReason == done => StopsForAReason(g, domains, hops, err, maxh)
=============================================================================
