-------------------------------- MODULE Url --------------------------------
(* URL normalisation on the rule side (api/rule.rs path_and_query, http/request.rs
   build_sorted_query) and on the request side (http/query.rs PathAndQueryWithSkipped::from_config),
   property C09.

   A URL is [path, q, hasq]: path a sequence of presentation TOKENS, q a sequence of parameters
   [k, v] whose key and value are token sequences, hasq whether a "?" is present.  Tokens are the
   strings a user types or a client sends: letters, " ", "+", percent escapes in both hex cases,
   a raw non-ASCII character (written ~e~ in this ASCII source; the harness substitutes it).

   Layer I: RuleForm / ReqForm / SkippedParams, token by token as the code computes them.
   Layer P: Canonical(u, cfg) -- sanitised path (case folded under the flag) + the decoded
            parameter map (last value wins, marketing parameters dropped when they are ignored);
            a rule made from u must match a request for v  iff  Canonical(u) = Canonical(v).   *)
EXTENDS Naturals, Sequences, FiniteSets, TLC, SequencesExt

Letters == {"p", "P", "a", "A", "b", "B", "k", "K", "x", "utm_source"}
\* decoded character of a token under application/x-www-form-urlencoded (query) decoding
Dec(t) == CASE t \in Letters -> t
            [] t \in {" ", "+", "%20"} -> "SP"
            [] t \in {"%2B", "%2b"} -> "PLUS"
            [] t \in {"\"", "%22"} -> "QUOTE"
            [] t \in {"~e~", "%C3%A9", "%c3%a9"} -> "EAC"
            [] t = "%26" -> "AMP"
            [] t \in {"'", "%27"} -> "APOS"      \* punctuation that no encode set touches
\* utf8_percent_encode of a decoded character with the QUERY encode sets (rule: two passes, the
\* second one with "+" in the set; request: one pass with "+" in the set); "&" is not in the set
Enc(d) == CASE d \in Letters -> d [] d = "SP" -> "%20" [] d = "PLUS" -> "%2B" [] d = "QUOTE" -> "%22"
            [] d = "EAC" -> "%C3%A9" [] d = "AMP" -> "&" [] d = "APOS" -> "'"
\* sanitize_url / URL_ENCODE_SET on raw text: space, quote, #, <, >, controls and non-ASCII only
San(t) == CASE t = " " -> "%20" [] t = "\"" -> "%22" [] t = "~e~" -> "%C3%A9" [] OTHER -> t
\* String::to_lowercase on the presentation
Low(t) == CASE t = "P" -> "p" [] t = "A" -> "a" [] t = "B" -> "b" [] t = "K" -> "k"
            [] t = "%2B" -> "%2b" [] t = "%C3%A9" -> "%c3%a9" [] OTHER -> t
\* lower-casing of a decoded character
LowD(d) == CASE d = "P" -> "p" [] d = "A" -> "a" [] d = "B" -> "b" [] d = "K" -> "k" [] OTHER -> d
MapSeq(f(_), s) == [i \in 1..Len(s) |-> f(s[i])]

\* byte order of decoded single-character keys (BTreeMap order); multi-token keys compare lexicographically
Rank(d) == CASE d = "SP" -> 1 [] d = "QUOTE" -> 2 [] d = "AMP" -> 3 [] d = "APOS" -> 4 [] d = "PLUS" -> 5
             [] d = "A" -> 10 [] d = "B" -> 11 [] d = "K" -> 12 [] d = "P" -> 13
             [] d = "a" -> 20 [] d = "b" -> 21 [] d = "k" -> 22 [] d = "p" -> 23 [] d = "utm_source" -> 24 [] d = "x" -> 25
             [] d = "EAC" -> 40
RECURSIVE KeyLess(_,_)
KeyLess(a, b) == IF a = <<>> THEN b # <<>>
                 ELSE IF b = <<>> THEN FALSE
                 ELSE IF Rank(a[1]) # Rank(b[1]) THEN Rank(a[1]) < Rank(b[1])
                 ELSE KeyLess(Tail(a), Tail(b))

DecP(p) == [k |-> MapSeq(Dec, p.k), v |-> MapSeq(Dec, p.v)]
Keys(q) == {DecP(q[i]).k : i \in 1..Len(q)}
LastVal(q, key) == DecP(q[CHOOSE i \in 1..Len(q) : DecP(q[i]).k = key /\ \A j \in (i + 1)..Len(q) : DecP(q[j]).k # key]).v
SortedKeys(K) == CHOOSE s \in [1..Cardinality(K) -> K] : \A i, j \in 1..Cardinality(K) : i < j => KeyLess(s[i], s[j])
EncParam(key, val) == MapSeq(Enc, key) \o (IF val = <<>> THEN <<>> ELSE <<"=">> \o MapSeq(Enc, val))
RECURSIVE Join(_,_)
Join(ps, i) == IF i > Len(ps) THEN <<>> ELSE (IF i > 1 THEN <<"&">> ELSE <<>>) \o ps[i] \o Join(ps, i + 1)
\* decode, sort by key, last value wins, re-encode; drop = decoded keys to skip
NormQuery(q, drop) == LET ks == SortedKeys(Keys(q) \ drop) IN Join([i \in 1..Len(ks) |-> EncParam(ks[i], LastVal(q, ks[i]))], 1)
RawQuery(q) == Join([i \in 1..Len(q) |-> q[i].k \o (IF q[i].v = <<>> /\ ~q[i].eq THEN <<>> ELSE <<"=">> \o q[i].v)], 1)

\* cfg: [mkt (ignore marketing parameters), icase, pass (forward them to the target), mparams (decoded keys)]
-----------------------------------------------------------------------------
(* Layer I: the two code paths as they are *)
RuleForm(u, cfg) ==
  LET nq == NormQuery(u.q, {})
      s == MapSeq(San, u.path) \o (IF nq = <<>> THEN <<>> ELSE <<"?">> \o nq)
  IN IF cfg.icase THEN MapSeq(Low, s) ELSE s
ReqForm(u, cfg) ==
  LET s == IF cfg.mkt
           THEN LET nq == NormQuery(u.q, cfg.mparams) IN MapSeq(San, u.path) \o (IF nq = <<>> THEN <<>> ELSE <<"?">> \o nq)
           ELSE MapSeq(San, u.path) \o (IF u.hasq THEN <<"?">> ELSE <<>>) \o MapSeq(San, RawQuery(u.q))
  IN IF cfg.icase THEN MapSeq(Low, s) ELSE s
SkippedParams(u, cfg) ==
  IF cfg.mkt /\ cfg.pass
  THEN LET ks == SortedKeys(Keys(u.q) \cap cfg.mparams) IN Join([i \in 1..Len(ks) |-> EncParam(ks[i], LastVal(u.q, ks[i]))], 1)
  ELSE <<>>
MatchI(ru, qu, cfg) == RuleForm(ru, cfg) = ReqForm(qu, cfg)

-----------------------------------------------------------------------------
(* Layer P *)
FoldD(cfg, s) == IF cfg.icase THEN MapSeq(LowD, s) ELSE s
CanonPath(u, cfg) == IF cfg.icase THEN MapSeq(Low, MapSeq(San, u.path)) ELSE MapSeq(San, u.path)
\* the decoded parameter map; marketing parameters count only when they are not ignored
CanonQuery(u, cfg) ==
  LET drop == IF cfg.mkt THEN cfg.mparams ELSE {} IN
  {<<FoldD(cfg, k), FoldD(cfg, LastVal(u.q, k))>> : k \in Keys(u.q) \ drop}
Canonical(u, cfg) == <<CanonPath(u, cfg), CanonQuery(u, cfg)>>
\* keys must stay distinct after case folding for the folded map to be a function
CleanKeys(u, cfg) == \A a, b \in Keys(u.q) : FoldD(cfg, a) = FoldD(cfg, b) => a = b
\* a rule source does not name a configured marketing parameter (outside the property's URL space)
RuleSpace(u, cfg) == Keys(u.q) \cap cfg.mparams = {}
\* distinct decoded keys (no repetition), no encoded delimiter inside a key or value
Simple(u) == /\ \A i, j \in 1..Len(u.q) : i # j => DecP(u.q[i]).k # DecP(u.q[j]).k
             /\ \A i \in 1..Len(u.q) : "AMP" \notin ToSet(DecP(u.q[i]).k) \cup ToSet(DecP(u.q[i]).v) /\ DecP(u.q[i]).k # <<>>
MatchP(ru, qu, cfg) == Canonical(ru, cfg) = Canonical(qu, cfg)

\* deviations of the code from layer P, named from the inputs alone
LowU(u) == [path |-> MapSeq(Low, u.path), hasq |-> u.hasq,
            q |-> [i \in 1..Len(u.q) |-> [k |-> MapSeq(Low, u.q[i].k), v |-> MapSeq(Low, u.q[i].v), eq |-> u.q[i].eq]]]
\* the request side only sanitises when marketing parameters are not ignored: no decoding, sorting, de-duplication
NotNormalised(qu, cfg) == ~cfg.mkt /\ ReqForm(qu, cfg) # RuleForm(qu, cfg)
\* both sides sort the parameters by their ORIGINAL keys and lower-case afterwards
FoldAfterSort(u, cfg) == cfg.icase /\ RuleForm(LowU(u), cfg) # RuleForm(u, cfg)
DeviationClass(ru, qu, cfg) ==
  IF NotNormalised(qu, cfg) THEN "marketing_off_request_not_normalised"
  ELSE IF FoldAfterSort(ru, cfg) \/ FoldAfterSort(qu, cfg) THEN "case_fold_after_sort"
  ELSE "url_match_wrong"
=============================================================================
