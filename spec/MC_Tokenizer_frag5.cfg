SPECIFICATION SpecInputs
CONSTANTS
  Inputs <- InputsDef
  MaxLen = 5
  AlphaName = "frag"
INVARIANTS Emit
CHECK_DEADLOCK FALSE
