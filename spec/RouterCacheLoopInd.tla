------------------------- MODULE RouterCacheLoopInd -------------------------
(* The loop of RouterCacheLoop.tla (Router::cache) once more, in the fragment Apalache accepts (no range with a
   non-constant bound: comparisons instead), for an UNBOUNDED budget and number of routes: MaxLimit and MaxRoutes are
   arbitrary naturals (ConstInit).  IndInv is inductive (Init => IndInv, IndInv /\ Next => IndInv') and implies
   LevelBound and GivesUpLate of RouterCacheLoop.tla for every budget, not only for MaxLimit = 5.
   RouterCacheLoop.tla stays the module TLC checks (liveness included); the same IndInv is an invariant of its bounded
   instance (RouterCacheLoop.cfg), which ties the two texts together.  Obligations (lib/vlib.py apalache_inductive):
     apalache-mc check --cinit=ConstInit --init=Init    --inv=IndInv --length=0      (initiation)
     apalache-mc check --cinit=ConstInit --init=IndInit --inv=IndInv --length=1      (consecution)
     apalache-mc check --cinit=ConstInit --init=IndInit --inv=Safe   --length=0      (IndInv => LevelBound /\ GivesUpLate)   *)
EXTENDS Integers

CONSTANTS
  \* @type: Int;
  MaxLimit,
  \* @type: Int;
  MaxRoutes

VARIABLES
  \* @type: Str;
  pc,
  \* @type: Int;
  prev,
  \* @type: Int;
  level,
  \* @type: Int;
  retry,
  \* @type: Int;
  left,
  \* @type: Int;
  routes

ConstInit == MaxLimit \in Nat /\ MaxRoutes \in Nat

Init == /\ pc = "loop" /\ prev \in Int /\ 0 <= prev /\ prev <= MaxLimit /\ level = 0 /\ retry = 0 /\ left = 0
        /\ routes \in Int /\ 0 <= routes /\ routes <= MaxRoutes

Iterate ==
  /\ pc = "loop"
  /\ IF prev <= 0 THEN pc' = "routes" /\ left' = prev /\ UNCHANGED <<prev, level, retry, routes>>
     ELSE \E next \in Int :
            /\ 0 <= next /\ next <= prev
            /\ IF next = prev /\ retry + 1 > 5
               THEN pc' = "routes" /\ left' = prev /\ retry' = retry + 1 /\ UNCHANGED <<prev, level, routes>>
               ELSE /\ retry' = IF next = prev THEN retry + 1 ELSE retry
                    /\ level' = level + 1 /\ prev' = next /\ UNCHANGED <<pc, left, routes>>
CompileRoute ==
  /\ pc = "routes"
  /\ IF left <= 0 \/ routes = 0 THEN pc' = "done" /\ UNCHANGED <<left, routes>>
     ELSE \E c \in {0, 1, 2} : left' = left - c /\ routes' = routes - 1 /\ UNCHANGED pc
  /\ UNCHANGED <<prev, level, retry>>
Next == Iterate \/ CompileRoute \/ (pc = "done" /\ UNCHANGED <<pc, prev, level, retry, left, routes>>)

LevelBound == level <= MaxLimit + 6
GivesUpLate == (pc # "loop" /\ left > 0) => retry = 6

IndInv ==
  /\ pc \in {"loop", "routes", "done"}
  /\ 0 <= prev /\ prev <= MaxLimit
  /\ 0 <= retry /\ retry <= 6
  /\ 0 <= level
  /\ 0 <= routes /\ routes <= MaxRoutes
  /\ left <= prev
  \* every iteration either spends one unit of budget or one retry
  /\ level + prev <= MaxLimit + retry
  /\ (pc = "loop" => retry <= 5 /\ left = 0)
  /\ GivesUpLate
IndInit == pc \in {"loop", "routes", "done"} /\ prev \in Int /\ level \in Int /\ retry \in Int /\ left \in Int /\ routes \in Int /\ IndInv
Safe == LevelBound /\ GivesUpLate
=============================================================================
