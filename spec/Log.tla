-------------------------------- MODULE Log --------------------------------
(* Log::from_proxy (src/api/log.rs, src/http/addr.rs): what the log entry of a request says.
   Not one of the listed properties: this module extends the specification's coverage; its
   conformance results are reported as DRIFT (never as a violation of a listed property), its
   totality is part of C07.

   Layer P: the address chain = the client address, then every address named by X-Forwarded-For
   and Forwarded (for=) headers in header order, unparsable entries skipped; `to` = the last
   Location of the response; referer / user agent / content type = the last header of that name
   (names case-insensitive); rule ids = the rules applied so far.                           *)
EXTENDS Naturals, Sequences, FiniteSets, TLC, SequencesExt

\* meaning of an address token as Addr::from_str reads it ("" = does not parse); surrounding blanks are trimmed
AddrOf(t) == CASE t = "10.0.0.1" -> "10.0.0.1" [] t = " 10.0.0.2 " -> "10.0.0.2" [] t = "10.0.0.3:8080" -> "10.0.0.3"
               [] t = "[::1]:80" -> "::1" [] t = "::1" -> "::1" [] t = "2001:db8::1" -> "2001:db8::1"
               [] OTHER -> ""          \* "unknown", "_hidden", "", "not an ip", "[::1", "1.2.3.4:99999"
\* a Forwarded for= value: blanks trimmed, surrounding quotes stripped, then read as an address
ForOf(t) == CASE t = "\"[2001:db8::1]:4711\"" -> "2001:db8::1" [] t = "\"10.0.0.4\"" -> "10.0.0.4" [] t = "\"" -> "" [] t = "\"\"" -> ""
              [] OTHER -> AddrOf(t)
LowerName(n) == CASE n = "X-Forwarded-For" -> "x-forwarded-for" [] n = "X-FORWARDED-FOR" -> "x-forwarded-for" [] n = "Forwarded" -> "forwarded" [] n = "FORWARDED" -> "forwarded"
                  [] n = "User-Agent" -> "user-agent" [] n = "Referer" -> "referer" [] n = "REFERER" -> "referer"
                  [] n = "Location" -> "location" [] n = "LOCATION" -> "location" [] n = "Content-Type" -> "content-type" [] OTHER -> n
\* header: [name, kind, items]; items are <<key, value>> pairs (key "" for kinds without keys);
\*   kind "xff": the values joined by ","; kind "fwd": key=value pairs joined by ";" / ","; kind "plain": the single value
NonEmpty(s) == SelectSeq(s, LAMBDA x : x # "")
IpsOfHeader(h) ==
  IF LowerName(h.name) = "x-forwarded-for" /\ h.kind = "xff" THEN NonEmpty([i \in 1..Len(h.items) |-> AddrOf(h.items[i][2])])
  ELSE IF LowerName(h.name) = "forwarded" /\ h.kind = "fwd"
       THEN NonEmpty([i \in 1..Len(h.items) |-> IF h.items[i][1] \in {"for", "For", "FOR", " for "} THEN ForOf(h.items[i][2]) ELSE ""])
  ELSE <<>>
RECURSIVE Chain(_,_)
Chain(hs, i) == IF i > Len(hs) THEN <<>> ELSE IpsOfHeader(hs[i]) \o Chain(hs, i + 1)
RefIps(client, hs) == NonEmpty(<<AddrOf(client)>>) \o Chain(hs, 1)
LastOf(hs, lname) == LET idx == {i \in 1..Len(hs) : LowerName(hs[i].name) = lname /\ hs[i].kind = "plain"} IN
                     IF idx = {} THEN "" ELSE hs[CHOOSE i \in idx : \A j \in idx : j <= i].items[1][2]

CONSTANTS Clients, ReqHeaders, RespHeaders, MaxH
VARIABLES client, req, resp
vars == <<client, req, resp>>
Seqs(S, n) == UNION {[1..k -> S] : k \in 0..n}
Init == client \in Clients /\ req \in Seqs(ReqHeaders, MaxH) /\ resp \in Seqs(RespHeaders, 2)
Next == UNCHANGED vars
Spec == Init /\ [][Next]_vars
\* the chain only ever names addresses that a header (or the client) named
ChainSound == \A i \in 1..Len(RefIps(client, req)) : RefIps(client, req)[i] # ""
=============================================================================
