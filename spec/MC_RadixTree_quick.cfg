SPECIFICATION Spec
CONSTANTS
  Patterns <- PQ
  Ids = {"i1", "i2", "i3"}
  Haystacks <- ProbeSet
  KeepSets = {{"i1"}, {"i2", "i3"}}
  Limits = {1, 2}
  Levels = {0, 1, 99}
  IgnoreCase = {FALSE, TRUE}
  MaxOps = 3
VIEW View
INVARIANTS FindCorrect LenCorrect GetCorrect TreeInv RemoveReturnsValue CacheTransparent CacheBudget Emit
CHECK_DEADLOCK FALSE
