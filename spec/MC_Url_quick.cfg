SPECIFICATION Spec
CONSTANTS
  Urls <- UrlsQuick
  Cfgs <- CfgsAll
INVARIANTS MatchMeetsCanonical ExactWhenNormalising SelfMatchWhenNormalising Emit
CHECK_DEADLOCK FALSE
