--------------------------- MODULE Trace_HeaderOps ---------------------------
(* Trace validation for C13 (binding B2): the harness recorded what the real library did
   with every (header list, filter sequence) TLC generated; this spec replays the log
   through the actions of HeaderOps and judges each observation with layer P.

   events   reset  {h}            a new behaviour starts with header list h
            filter {f, out}       FilterHeaderAction::new([f]).filter(previous out) = out
            action {h, fs, out}   Action::filter_headers(h, 200, false, None) = out  (three per behaviour: the action read from JSON, the
                                  action built from ONE matched rule carrying the sequence, and from one rule per filter by descending rank)
            panic  {case, msg}    the library panicked (always a violation)

   A property-level disagreement does not stop the validation: it is printed as
   <<"VERDICT", line, class>> and the run continues from the observed state, so the rest
   of the trace is still examined.  Disagreement with the code-shaped layer only is
   printed as <<"DRIFT", line>>.                                                      *)
EXTENDS HeaderMachine, Json, IOUtils

Rec == ndJsonDeserialize(IOEnv.TRACE)

VARIABLES l,      \* next line of the trace
          obs     \* header list the real library holds (last observed output)
tvars == <<vars, l, obs>>

TraceInit == Init /\ l = 1 /\ obs = <<>>

Report(tag, cls) == PrintT(<<tag, l, cls>>)
Judge(ok, cls) == IF ok THEN TRUE ELSE Report("VERDICT", cls)
Drift(ok) == IF ok THEN TRUE ELSE Report("DRIFT", "layer-I")

IsEvent(e) == l <= Len(Rec) /\ Rec[l].ev = e /\ l' = l + 1

TraceReset ==
  /\ IsEvent("reset")
  /\ h0' = Rec[l].h /\ cur' = Rec[l].h /\ prev' = Rec[l].h /\ fs' = <<>>
  /\ obs' = Rec[l].h

\* the spec action, restarted from the state the implementation is really in
TraceFilter ==
  /\ IsEvent("filter")
  /\ LET f == Rec[l].f out == Rec[l].out IN
     /\ fs' = Append(fs, Flt(f.op, f.name, f.value))
     /\ prev' = obs
     /\ cur' = ApplyI(Flt(f.op, f.name, f.value), obs)
     /\ UNCHANGED h0
     /\ obs' = out
     /\ Judge(OpPost(f, obs, out), "header_op_" \o f.op)
     /\ Judge(Untouched(f, obs, out), "header_frame_" \o f.op)
     /\ Drift(cur' = out)

TraceAction ==
  /\ IsEvent("action")
  /\ LET e == Rec[l] IN
     /\ Judge(EqCI(e.out, HeaderOpsFold(e.fs, 1, e.h)), "header_fold")
     /\ Drift(e.out = FoldI(e.fs, 1, e.h))
  /\ UNCHANGED <<vars, obs>>

TracePanic ==
  /\ IsEvent("panic")
  /\ Report("VERDICT", "panic")
  /\ UNCHANGED <<vars, obs>>

TraceNext == TraceReset \/ TraceFilter \/ TraceAction \/ TracePanic
TraceSpec == TraceInit /\ [][TraceNext]_tvars

Accepted == LET d == TLCGet("stats").diameter IN
            IF d - 1 = Len(Rec) THEN PrintT(<<"ACCEPTED", Len(Rec)>>)
            ELSE Print(<<"REJECTED", d, IF d <= Len(Rec) THEN Rec[d] ELSE "eof">>, FALSE)
=============================================================================
