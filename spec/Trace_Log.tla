------------------------------- MODULE Trace_Log -------------------------------
(* log {client, req, resp, out = [ips, to, referer, userAgent, contentType]}: Log::from_proxy on the recorded inputs.
   Disagreements are DRIFT (no listed property speaks about the log's content); a panic is a C07 verdict. *)
EXTENDS Log, Json, IOUtils
TraceLog == ndJsonDeserialize(IOEnv.TRACE)
VARIABLES l
Report(tag, cls) == PrintT(<<tag, l, cls>>)
Drift(ok, cls) == IF ok THEN TRUE ELSE Report("DRIFT", cls)
IsEvent(e) == l <= Len(TraceLog) /\ TraceLog[l].ev = e /\ l' = l + 1
TraceLogEv ==
  /\ IsEvent("log")
  /\ LET e == TraceLog[l] IN
     /\ Drift(e.out.ips = RefIps(e.client, e.req), "log_address_chain")
     /\ Drift(e.out.to = LastOf(e.resp, "location"), "log_location")
     /\ Drift(e.out.referer = LastOf(e.req, "referer") /\ e.out.userAgent = LastOf(e.req, "user-agent"), "log_request_fields")
     /\ Drift(e.out.contentType = LastOf(e.resp, "content-type"), "log_content_type")
TracePanic == IsEvent("panic") /\ Report("VERDICT", "panic")
TraceNext == TraceLogEv \/ TracePanic
TraceSpec == l = 1 /\ client = 0 /\ req = 0 /\ resp = 0 /\ [][TraceNext /\ UNCHANGED vars]_<<l, vars>>
Accepted == LET d == TLCGet("stats").diameter IN
            IF d - 1 = Len(TraceLog) THEN PrintT(<<"ACCEPTED", Len(TraceLog)>>)
            ELSE Print(<<"REJECTED", d, IF d <= Len(TraceLog) THEN TraceLog[d].ev ELSE "eof">>, FALSE)
=============================================================================
