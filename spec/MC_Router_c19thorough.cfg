SPECIFICATION Spec
CONSTANTS
  Pool <- PoolHist
  Cfgs <- CfgsTwo
  OpKinds = {"insert", "fork"}
  MaxOps = 4
  MaxRules = 3
  ReqUniverse <- Universe
VIEW View
INVARIANTS NoMissNoSpurious IncrementalEqualsRebuild UniqueIds EmitFork
CONSTRAINT ForkLast
CHECK_DEADLOCK FALSE
