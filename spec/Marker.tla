------------------------------- MODULE Marker -------------------------------
(* Markers (src/marker/mod.rs, api/rule.rs variables(), action get_target / from_route_rule),
   property C10.  A template is a sequence of items: <<"lit", text>> or <<"ref", name>>.  A rule
   carries templates for its path, optionally its host and a header pattern, and templates for the
   redirect target and the values of a header filter and of a body filter.  A request is built by
   INSTANTIATING every marker with a value.

   Layer P: the rule matches iff every value is accepted by its marker's expression; every
   reference in target / filter values is replaced by the value after the marker's transformers,
   references being unambiguous in the token form (longest name first in the textual form).   *)
EXTENDS Naturals, Sequences, FiniteSets, TLC, MarkerTables

Lit(s) == <<"lit", s>>
Ref(n) == <<"ref", n>>

\* marker expressions and the values they accept
Regex(lang) == CASE lang = "integer" -> "[0-9]+" [] lang = "lowercase" -> "[a-z]+" [] lang = "lowercase_search" -> "[a-z]+" [] lang = "enum" -> "(?:cat|dog)" [] lang = "alt" -> "(cat)|(dog)"
                 [] lang = "enum_sp" -> "(?:new york|cat)"
                 [] lang = "date" -> "[0-9]{4}-[0-9]{2}-[0-9]{2}" [] lang = "anything" -> ".*" [] lang = "anyhost" -> "[^.]+"
                 [] lang = "uuid" -> "[0-9a-f]{8}-[0-9a-f]{4}-[0-9a-f]{4}-[0-9a-f]{4}-[0-9a-f]{12}"
Accepts(lang, v) == CASE lang = "integer"   -> v \in {"12", "7"}
                      [] lang = "lowercase" -> v \in {"ab", "x", "cat", "dog"}
                      [] lang = "lowercase_search" -> v \in {"ab", "x"}
                      [] lang = "enum"      -> v \in {"cat", "dog"}
                      [] lang = "alt"       -> v \in {"cat", "dog"}
                      [] lang = "enum_sp"   -> v \in {"new york", "cat"}
                      [] lang = "date"      -> v \in {"2024-03-10"}
                      [] lang = "uuid"      -> v \in {"123e4567-e89b-12d3-a456-426614174000"}
                      [] lang = "anything"  -> TRUE
                      [] lang = "anyhost"   -> TRUE
\* candidate values per language: accepted ones and near misses
Candidates(lang) == CASE lang = "integer"   -> {"12", "7", "1a", "x"}
                      [] lang = "lowercase" -> {"ab", "x", "aB", "a1"}
                      \* a header pattern is SEARCHED in the value: near misses must not contain an accepted string after the literal
                      [] lang = "lowercase_search" -> {"ab", "x", "1a", "A"}
                      [] lang = "enum"      -> {"cat", "dog", "cow", "catx"}
                      \* a top-level alternation: near misses that would match if the expression were not grouped
                      [] lang = "alt"       -> {"cat", "dog", "cow", "xdog", "catx"}
                      \* an expression with a space, used in a header pattern (header values are not percent-encoded)
                      [] lang = "enum_sp"   -> {"new york", "cat", "newyork", "york"}
                      [] lang = "date"      -> {"2024-03-10", "2024-3-10", "20240310"}
                      [] lang = "uuid"      -> {"123e4567-e89b-12d3-a456-426614174000", "123e4567-e89b-12d3-a456-42661417400g", "123e4567"}
                      [] lang = "anything"  -> {"ab-cd", "fooBar", "x_y", "12", "a-b-b"}   \* the last one repeats what the replace transformers look for
                      [] lang = "anyhost"   -> {"ab-cd", "~e~cole", "~E~COLE"}

\* transformer chain applied left to right
RECURSIVE Chain(_,_,_)
Chain(ts, i, v) == IF i > Len(ts) THEN v ELSE Chain(ts, i + 1, Transform1(ts[i], v))

\* rule: [markers: name -> [lang, chain], path, host, hdr: templates (<<>> = absent), target, hfv, bfv: templates]
\* inst: name -> value
RefsOf(tpl) == {tpl[i][2] : i \in {j \in 1..Len(tpl) : tpl[j][1] = "ref"}}
Used(rule) == RefsOf(rule.path) \cup RefsOf(rule.host) \cup RefsOf(rule.hdr)
AllAccepted(rule, inst) == \A n \in Used(rule) : Accepts(rule.markers[n].lang, inst[n])

RECURSIVE Instantiate(_,_,_)
\* the request text for a source template
Instantiate(tpl, inst, i) == IF i > Len(tpl) THEN ""
                             ELSE (IF tpl[i][1] = "lit" THEN tpl[i][2] ELSE inst[tpl[i][2]]) \o Instantiate(tpl, inst, i + 1)
RECURSIVE Source(_,_)
\* the rule-side text of a template ("@name" for references)
Source(tpl, i) == IF i > Len(tpl) THEN "" ELSE (IF tpl[i][1] = "lit" THEN tpl[i][2] ELSE "@" \o tpl[i][2]) \o Source(tpl, i + 1)
RECURSIVE Substitute(_,_,_,_)
\* layer P: the value of a target / filter template once the rule matched; a reference to a marker
\* that the source does not use stays as it is
Substitute(tpl, rule, inst, i) ==
  IF i > Len(tpl) THEN ""
  ELSE (IF tpl[i][1] = "lit" THEN tpl[i][2]
        ELSE IF tpl[i][2] \in Used(rule) THEN Chain(rule.markers[tpl[i][2]].chain, 1, inst[tpl[i][2]])
        ELSE "@" \o tpl[i][2]) \o Substitute(tpl, rule, inst, i + 1)
=============================================================================
