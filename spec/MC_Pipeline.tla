----------------------------- MODULE MC_Pipeline -----------------------------
EXTENDS Pipeline, BodyCases, Json
PCase(d, f, e) == [doc |-> d, fs |-> f, enc |-> e]
Small == <<[k |-> "stag", n |-> "html", us |-> <<"<html>">>, sel |-> FALSE], [k |-> "stag", n |-> "body", us |-> <<"<body>">>, sel |-> FALSE],
           [k |-> "text", n |-> "", us |-> <<"t">>, sel |-> FALSE], [k |-> "etag", n |-> "body", us |-> <<"</body>">>, sel |-> FALSE],
           [k |-> "etag", n |-> "html", us |-> <<"</html>">>, sel |-> FALSE]>>
SmallHead == <<[k |-> "stag", n |-> "html", us |-> <<"<html>">>, sel |-> FALSE], [k |-> "stag", n |-> "head", us |-> <<"<head>">>, sel |-> FALSE],
               [k |-> "stag", n |-> "meta", us |-> <<"<meta>">>, sel |-> FALSE], [k |-> "etag", n |-> "head", us |-> <<"</head>">>, sel |-> FALSE],
               [k |-> "ptag", n |-> "", us |-> <<"<bo">>, sel |-> FALSE]>>
\* exhaustive lag exploration on tiny documents
CasesLag == {PCase(d, f, e) : d \in {Small, SmallHead}, f \in {F1, F2, F3, F9, F10, F12, F20}, e \in {"gzip", "none", "zstd"}}
\* cases to replay on the real chain (the harness sweeps the cuts of the compressed stream)
CasesReplayQ == {PCase(d, f, e) : d \in {A2, A3, A7, A9, A12, B4, B8, B9}, f \in {F1, F3, F6, F8, F9, F10, F11, F12, F19, F20}, e \in {"gzip", "deflate", "br", "zstd", "none"}}
                \cup {PCase(d, f, e) : d \in {A2, B9}, f \in {F1, F12}, e \in {"GZIP", "Br"}}
                \cup {PCase(d, F29, e) : d \in {A2, B9}, e \in {"gzip", "br", "deflate", "none", "zstd"}}
                \* a body that hardly compresses; an html stage before a text replace; a LIST of codings (not supported: untouched)
                \cup {PCase(A17, f, e) : f \in {F1, F12}, e \in {"gzip", "deflate", "br"}}
                \cup {PCase(d, f, e) : d \in {A2, A3}, f \in {F36, F37}, e \in {"gzip", "deflate", "br"}}
                \cup {PCase(d, f, e) : d \in {A2, B9}, f \in {F1, F12}, e \in {"deflate, gzip", "gzip, br", "gzip,gzip"}}
\* (the 70 kB noise document only with a few lists: every run on it compresses and filters 70 kB several hundred times)
CasesReplayT == {PCase(d, f, e) : d \in (DocsWell \cup DocsMessy) \ {A17}, f \in FiltersAll, e \in {"gzip", "deflate", "br", "zstd", "identity"}}
                \cup {PCase(A17, f, e) : f \in {F1, F6, F12, F36}, e \in {"gzip", "deflate", "br"}}
                \cup {PCase(d, f, e) : d \in {A2, A7, B9}, f \in {F1, F6, F12}, e \in {"GZIP", "Br"}}
                \cup {PCase(d, F29, e) : d \in {A2, A7, B9}, e \in {"gzip", "br", "deflate", "none", "zstd"}}
                \cup {PCase(d, f, e) : d \in {A2, A7, B9}, f \in {F1, F6, F12, F36}, e \in {"deflate, gzip", "gzip, br", "gzip,gzip", "identity, gzip"}}
\* the gate alone: lists that build nothing, empty lists, unsupported encodings (C04: "cannot be built ... passes through byte-for-byte")
CasesInert == {PCase(d, f, e) : d \in {A2, A9, B4, B9, B12}, f \in {F29, F20}, e \in {"gzip", "br", "deflate", "none", "zstd", "GZIP"}}
              \cup {PCase(d, f, "zstd") : d \in {A2, B4}, f \in {F1, F6, F12}}
SpecCases == Init /\ [][FALSE]_vars
Emit == PrintT(<<"REPLAY", ToJson(cs)>>)
=============================================================================
