SPECIFICATION Spec
CONSTANTS
  MaxLimit = 5
  MaxRoutes = 3
INVARIANTS TypeOK LevelBound GivesUpLate IndInv
PROPERTY Terminates
CHECK_DEADLOCK FALSE
