SPECIFICATION Spec
CONSTANTS
  MaxLimit = 5
  MaxRoutes = 3
INVARIANTS TypeOK LevelBound GivesUpLate
PROPERTY Terminates
CHECK_DEADLOCK FALSE
