------------------------------- MODULE MC_Url -------------------------------
EXTENDS UrlMachine, Json
Pm(k, v, eq) == [k |-> k, v |-> v, eq |-> eq]
U(p, q, hasq) == [path |-> p, q |-> q, hasq |-> hasq]
PathsQ == {<<"/", "p">>, <<"/", "P", " ">>, <<"/", "p", "'">>}
PathsT == PathsQ \cup {<<"/", "p", "%20">>, <<"/", "~e~">>, <<"/", "%c3%a9">>}
ValsQ == {<<>>, <<"a">>, <<"A">>, <<"+">>, <<"%20">>, <<"%2B">>, <<"'">>}
ValsT == ValsQ \cup {<<"%27">>, <<"%2b">>, <<" ">>, <<"~e~">>, <<"%c3%a9">>, <<"\"">>, <<"a", "+", "b">>}
KeysQ == {<<"k">>, <<"K">>, <<"b">>}
Param1(Ks, Vs) == {Pm(k, v, v # <<>>) : k \in Ks, v \in Vs} \cup {Pm(k, <<>>, TRUE) : k \in Ks}
MktParams == {Pm(<<"utm_source">>, <<"x">>, TRUE)}
\* two-parameter queries over a reduced parameter set
Pair(Ps) == {<<a, b>> : a, b \in Ps}
RedQ == {Pm(<<"k">>, <<"a">>, TRUE), Pm(<<"K">>, <<"a">>, TRUE), Pm(<<"b">>, <<"+">>, TRUE), Pm(<<"b">>, <<"%20">>, TRUE), Pm(<<"k">>, <<"A">>, TRUE)}
RedT == RedQ \cup {Pm(<<"b">>, <<>>, FALSE), Pm(<<"B">>, <<"%2B">>, TRUE), Pm(<<"k">>, <<"~e~">>, TRUE), Pm(<<"a">>, <<"a">>, TRUE)}
Queries(Ks, Vs, Red) == {<<>>} \cup {<<x>> : x \in Param1(Ks, Vs)} \cup Pair(Red)
                        \cup {<<x, m>> : x \in Red, m \in MktParams} \cup {<<m, x>> : x \in Red, m \in MktParams} \cup {<<m>> : m \in MktParams}
UrlsOf(Ps, Ks, Vs, Red) == {U(p, q, q # <<>>) : p \in Ps, q \in Queries(Ks, Vs, Red)} \cup {U(p, <<>>, TRUE) : p \in Ps}
\* a key that is percent-encoded: its encoded form ("%C3%A9") sorts BEFORE the letters, its decoded form after them
EacKey == Pm(<<"~e~">>, <<"a">>, TRUE)
EacUrls == {U(<<"/", "p">>, q, TRUE) : q \in {<<EacKey>>, <<EacKey, Pm(<<"k">>, <<"a">>, TRUE)>>, <<Pm(<<"k">>, <<"a">>, TRUE), EacKey>>, <<Pm(<<"%c3%a9">>, <<"a">>, TRUE), Pm(<<"b">>, <<"+">>, TRUE)>>}}
UrlsQuick == UrlsOf(PathsQ, KeysQ, ValsQ, RedQ) \cup EacUrls
UrlsThorough == UrlsOf(PathsT, KeysQ, ValsT, RedT \cup {EacKey}) \cup EacUrls
\* ms: the configured set of marketing parameters ("utm" = {utm_source}, "none" = the empty set; the empty set only matters when they are ignored)
MSet(ms) == IF ms = "utm" THEN {<<"utm_source">>} ELSE {}
C(m, i, p, ms) == [mkt |-> m, icase |-> i, pass |-> p, ms |-> ms, mparams |-> MSet(ms)]
CfgsAll == {C(m, i, p, "utm") : m, i, p \in BOOLEAN} \cup {C(TRUE, i, p, "none") : i, p \in BOOLEAN}
UrlSeq == SetToSeq(Urls)
Idx(u) == CHOOSE i \in 1..Len(UrlSeq) : UrlSeq[i] = u
Emit == PrintT(<<"REPLAY", ToJson([cfg |-> [mkt |-> cfg.mkt, icase |-> cfg.icase, pass |-> cfg.pass, ms |-> cfg.ms], ru |-> Idx(ru)])>>)
UniverseBlob == PrintT(<<"UNIVERSE", ToJson([urls |-> UrlSeq])>>)
ASSUME UniverseBlob
=============================================================================
