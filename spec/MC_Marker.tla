------------------------------ MODULE MC_Marker ------------------------------
EXTENDS Marker, Json, SequencesExt
CONSTANTS Mode
VARIABLES rule, inst
vars == <<rule, inst>>

M(lang, chain) == [lang |-> lang, chain |-> chain]
Names == {"a", "ab", "abc", "h", "k"}
\* marker typing: a integer, ab lowercase, abc enum, h lowercase (host), k lowercase (header)
BaseMarkers == [n \in Names |-> CASE n = "a" -> M("integer", <<>>) [] n = "ab" -> M("lowercase", <<>>) [] n = "abc" -> M("enum", <<>>)
                                 [] n = "h" -> M("lowercase", <<>>) [] n = "k" -> M("lowercase_search", <<>>)]
PathTpls == { <<Lit("/x/"), Ref("a")>>,
              <<Lit("/x/"), Ref("a"), Lit("/y/"), Ref("ab")>>,
              <<Lit("/"), Ref("a"), Lit("/"), Ref("ab"), Lit("/"), Ref("abc")>>,
              <<Lit("/p-"), Ref("ab"), Lit("-"), Ref("a")>> }
HostTpls == { <<>>, <<Ref("h"), Lit(".example.com")>> }
HdrTpls == { <<>>, <<Lit("k-"), Ref("k")>> }
\* targets and filter values reference exactly the markers the source uses: once each separated by "/", then
\* all of them adjacent, shortest name first (so that a shorter name is followed by a longer one: "@a@ab@abc")
Order == <<"abc", "ab", "a", "h", "k">>
RECURSIVE Sep(_,_,_)
Sep(U, i, sep) == IF i > Len(Order) THEN <<>> ELSE (IF Order[i] \in U THEN <<Lit(sep), Ref(Order[i])>> ELSE <<>>) \o Sep(U, i + 1, sep)
RECURSIVE Adj(_,_)
Adj(U, i) == IF i = 0 THEN <<>> ELSE (IF Order[i] \in U THEN <<Ref(Order[i])>> ELSE <<>>) \o Adj(U, i - 1)
TargetFor(U) == <<Lit("/t")>> \o Sep(U, 1, "/") \o <<Lit("/")>> \o Adj(U, 3) \o <<Lit("?x=")>> \o Adj(U, 5)
HfvFor(U) == <<Lit("v")>> \o Sep(U, 1, ";")
BfvFor(U) == <<Lit("<b>")>> \o Adj(U, 5) \o <<Lit("</b>")>>
OldTargets == { <<Lit("/t/"), Ref("abc"), Lit("/"), Ref("ab"), Lit("/"), Ref("a"), Lit("/"), Ref("a"), Ref("ab")>>,
             <<Lit("/t?"), Ref("ab"), Lit("="), Ref("a"), Lit("&h="), Ref("h"), Lit("&k="), Ref("k")>> }
UsedBy(p, h, hd) == RefsOf(p) \cup RefsOf(h) \cup RefsOf(hd)
R(m, p, h, hd, t) == [markers |-> m, path |-> p, host |-> h, hdr |-> hd, target |-> TargetFor(UsedBy(p, h, hd)),
                      hfv |-> HfvFor(UsedBy(p, h, hd)), bfv |-> BfvFor(UsedBy(p, h, hd)), vars |-> FALSE]
\* typed languages on the anything-marker, transformer chains on ab
AnyRule(lang) == R([BaseMarkers EXCEPT !["ab"] = M(lang, <<>>)], <<Lit("/z/"), Ref("ab")>>, <<>>, <<>>, <<Lit("/t/"), Ref("ab")>>)
CaseConv == {"camelize", "dasherize", "underscorize"}
Plain == TransformerNames \ CaseConv
Chains == {<<>>} \cup {<<t>> : t \in TransformerNames} \cup {<<t, u>> : t \in TransformerNames, u \in Plain}
ChainRule(c) == R([BaseMarkers EXCEPT !["ab"] = M("anything", c)], <<Lit("/z/"), Ref("ab")>>, <<>>, <<>>, <<Lit("/t/"), Ref("ab"), Lit("/"), Ref("ab")>>)

RulesMatch == {R(BaseMarkers, p, h, hd, <<>>) : p \in PathTpls, h \in HostTpls, hd \in HdrTpls}
\* between two literals, so that an ungrouped alternation would split the whole pattern
MidRule(lang) == R([BaseMarkers EXCEPT !["ab"] = M(lang, <<>>)], <<Lit("/z/"), Ref("ab"), Lit("/e")>>, <<>>, <<>>, <<>>)
HeaderLangRule(lang) == R([BaseMarkers EXCEPT !["k"] = M(lang, <<>>)], <<Lit("/q")>>, <<>>, <<Lit("k-"), Ref("k")>>, <<>>)
RulesLang == {HeaderLangRule("enum_sp")} \cup {AnyRule(l) : l \in {"integer", "lowercase", "enum", "alt", "date", "uuid", "anything"}} \cup {MidRule(l) : l \in {"enum", "alt", "lowercase"}}
\* a marker captured from the HOST keeps non-ASCII text as it is (paths are percent-encoded before capture)
HostChainRule(c) == R([BaseMarkers EXCEPT !["h"] = M("anyhost", c)], <<Lit("/q")>>, <<Ref("h"), Lit(".example.com")>>, <<>>, <<>>)
\* the same rules with explicitly declared variables, shortest name first
WithVars(r) == [r EXCEPT !.vars = TRUE]
RulesChain == {ChainRule(c) : c \in Chains} \cup {HostChainRule(c) : c \in {<<>>, <<"uppercase">>, <<"lowercase">>, <<"lowercase", "replace_b_x">>, <<"uppercase", "replace_dash_plus">>}}
Rules == CASE Mode = "match" -> RulesMatch [] Mode = "lang" -> RulesLang [] Mode = "chain" -> RulesChain
           [] Mode = "vars" -> {WithVars(r) : r \in {x \in RulesMatch : x.path = <<Lit("/"), Ref("a"), Lit("/"), Ref("ab"), Lit("/"), Ref("abc")>>}}

\* instantiations: every used marker takes one of its candidate values; unused markers a fixed accepted value
DefaultVal(n) == CASE n = "a" -> "12" [] n = "ab" -> "ab" [] n = "abc" -> "cat" [] n = "h" -> "ab" [] n = "k" -> "ab"
ValsFor(r, n) == IF n \in Used(r) THEN Candidates(r.markers[n].lang) ELSE {DefaultVal(n)}
Insts(r) == {[a |-> va, ab |-> vab, abc |-> vabc, h |-> vh, k |-> vk] :
               va \in ValsFor(r, "a"), vab \in ValsFor(r, "ab"), vabc \in ValsFor(r, "abc"), vh \in ValsFor(r, "h"), vk \in ValsFor(r, "k")}
Init == rule \in Rules /\ inst \in Insts(rule)
Next == UNCHANGED vars
Spec == Init /\ [][Next]_vars
\* sanity of the tables: a transformer chain maps known values to known values
ChainsClosed == \A n \in Used(rule) : Chain(rule.markers[n].chain, 1, inst[n]) \in TValues \/ rule.markers[n].chain = <<>>
Emit == PrintT(<<"REPLAY", ToJson([rule |-> [markers |-> [n \in Names |-> [lang |-> rule.markers[n].lang, regex |-> Regex(rule.markers[n].lang), chain |-> rule.markers[n].chain]],
                                             path |-> rule.path, host |-> rule.host, hdr |-> rule.hdr, target |-> rule.target, hfv |-> rule.hfv, bfv |-> rule.bfv, vars |-> rule.vars],
                                   inst |-> inst])>>)
=============================================================================
