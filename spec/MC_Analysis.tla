----------------------------- MODULE MC_Analysis -----------------------------
EXTENDS Analysis, Json
Emit == done => PrintT(<<"REPLAY", ToJson([kind |-> "loop", g |-> g, domains |-> domains, maxh |-> maxh,
                                           start |-> hops[1].url, method |-> hops[1].method])>>)
=============================================================================
