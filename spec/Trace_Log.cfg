SPECIFICATION TraceSpec
CONSTANTS
  Clients = {}
  ReqHeaders = {}
  RespHeaders = {}
  MaxH = 0
POSTCONDITION Accepted
CHECK_DEADLOCK FALSE
