SPECIFICATION Spec
CONSTANTS
  Tokens = {"a", "/", ".", "E(", "AS", "LOW", "ASP", "NEST", "NS", "OPT", "CLS", "CLB", "ANY"}
  MaxLen = 2
INVARIANTS CutAtTokenBoundary CutWithinCommonTokens CutIsCommonTokens Emit
CHECK_DEADLOCK FALSE
