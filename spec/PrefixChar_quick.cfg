SPECIFICATION Spec
CONSTANTS
  Tokens = {"a", "/", ".", "E(", "BS", "AS", "LOW", "ASP", "NEST", "NS", "OPT", "CLS", "CLB", "ANY"}
  MaxLen = 2
INVARIANTS CutAtTokenBoundary CutWithinCommonTokens CutIsCommonTokens Emit
CHECK_DEADLOCK FALSE
