----------------------------- MODULE Trace_Action -----------------------------
(* Trace validation for the action machine (C05, C06, C11).  One behaviour per `fold` event:

   fold     {rules, ov, script, matched, perm_hashes, ins_hashes, proj}
            the real Router matched `rules`, Action::from_routes_rule folded them; the hashes are
            those of the serialised action for every permutation of the match vector and for
            routers built in every insertion order (C11)
   status / headers / body / log   {c, out.., applied, *_plain}
            answer of the real action to the next query of the script; *_plain are the answers of
            a second copy of the action that never went through JSON (C06)
   handoff  {ok, h1, h2}   serde_json round trip of the action; h1, h2 hashes of ser(a), ser(de(ser(a)))

   Verdict classes: status, headers, body, log, applied, attribution (C05);
                    order_permutation, order_insertion (C11);
                    handoff_decode, handoff_reserialise, handoff_behaviour (C06); panic.      *)
EXTENDS Action, Json, IOUtils

Rec == ndJsonDeserialize(IOEnv.TRACE)

VARIABLES l
tvars == <<vars, l>>

Report(tag, cls) == PrintT(<<tag, l, cls>>)
Judge(ok, cls) == IF ok THEN TRUE ELSE Report("VERDICT", cls)
\* the twin of the action: in the C06 shapes the copy that never went through serde; otherwise the copy whose queries are
\* all made WITH a unit trace (the bookkeeping must not change any result)
TwinClass(e) == IF e.traced THEN "unit_trace_changes_result" ELSE "handoff_behaviour"
Drift(ok, cls) == IF ok THEN TRUE ELSE Report("DRIFT", cls)

IsEvent(e) == l <= Len(Rec) /\ Rec[l].ev = e /\ l' = l + 1

\* JSON turns sets into arrays
RuleOf(j) == [j EXCEPT !.codes = ToSet(j.codes)]
RulesOf(js) == {RuleOf(js[i]) : i \in 1..Len(js)}
AllEqual(s) == \A i \in 1..Len(s) : s[i] = s[1]

H0 == <<Hdr("X-Base", "b")>>
RECURSIVE Concat(_,_)
Concat(s, i) == IF i > Len(s) THEN "" ELSE s[i] \o Concat(s, i + 1)

TraceInit == Init /\ ov = "none" /\ l = 1

\* AddRule* ; Fold composed: the harness delivers the whole matched set at once
TraceFold ==
  /\ IsEvent("fold")
  /\ LET e == Rec[l] R == RulesOf(e.rules) a == ActionFoldI(R, e.ov) IN
     /\ rules' = R /\ ov' = e.ov /\ phase' = "folded" /\ act' = a
     /\ script' = e.script /\ pc' = 1 /\ applied' = {} /\ last' = <<>>
     /\ Judge(AllEqual(e.perm_hashes), "order_permutation")
     /\ Judge(AllEqual(e.perm_hashes \o e.ins_hashes), "order_insertion")
     /\ Drift(ToSet(e.matched) = {r.id : r \in R}, "router_match")
     /\ Drift(/\ e.proj.hfr = [i \in 1..Len(a.hfs) |-> a.hfs[i].rid]
              \* in the rich (C06) shapes every text body filter of a rule has an HTML sibling in the same rule
              /\ e.proj.bfr = (IF e.rich THEN [i \in 1..(2 * Len(a.bfs)) |-> a.bfs[(i + 1) \div 2].rid] ELSE [i \in 1..Len(a.bfs) |-> a.bfs[i].rid])
              /\ e.proj.traces = [i \in 1..Len(a.traces) |-> a.traces[i].id]
              /\ Len(e.proj.scu) = Len(a.scu)
              /\ (a.scu # <<>> => /\ e.proj.scu[1].code = a.scu[1].code /\ e.proj.scu[1].fb = a.scu[1].fb
                                  /\ e.proj.scu[1].rid = a.scu[1].rid /\ e.proj.scu[1].fbrid = a.scu[1].fbrid)
              /\ Len(e.proj.log) = Len(a.log)
              /\ (a.log # <<>> => /\ e.proj.log[1].v = a.log[1].v /\ e.proj.log[1].fb = a.log[1].fb
                                  /\ e.proj.log[1].rid = a.log[1].rid /\ e.proj.log[1].fbrid = a.log[1].fbrid),
              "action_shape")

AppliedOK(e) == /\ Judge(ToSet(e.applied) = RefApplied(rules, ov, script, pc), "applied")
                /\ Judge(ToSet(e.applied) \subseteq {r.id : r \in ToSet(Eff(rules, ov))}, "attribution")
                /\ Judge(ToSet(e.applied_plain) = ToSet(e.applied), TwinClass(e))

TraceStatus ==
  /\ IsEvent("status") /\ QStatus
  /\ LET e == Rec[l] IN
     /\ Judge(e.c = Cur.c, "script_mismatch")
     /\ Judge(e.out = RefStatus(rules, ov, e.c)[1], "status")
     /\ Judge(e.out = e.out_plain, TwinClass(e))
     /\ AppliedOK(e)
     /\ Drift(<<e.out>> = last', "status_layer_I")

TraceHeaders ==
  /\ IsEvent("headers") /\ QHeaders
  /\ LET e == Rec[l] IN
     /\ Judge(e.c = Cur.c, "script_mismatch")
     /\ Judge(EqCI(e.out, HeaderOpsFold(RefHeaders(rules, ov, e.c), 1, e.h)), "headers")
     /\ Judge(e.out = e.out_plain, TwinClass(e))
     /\ AppliedOK(e)
     /\ Drift(e.out = FoldI(last', 1, e.h), "headers_layer_I")

TraceBody ==
  /\ IsEvent("body") /\ QBody
  /\ LET e == Rec[l] want == RefBody(rules, ov, e.c) IN
     /\ Judge(e.c = Cur.c, "script_mismatch")
     /\ Judge(e.rich \/ e.out = "B" \o Concat(want, 1), "body")
     /\ Judge(e.some = (want # <<>>), "body")
     /\ Judge(e.out = e.out_plain /\ e.some = e.some_plain, TwinClass(e))
     /\ AppliedOK(e)
     /\ Drift(e.rich \/ e.out = "B" \o Concat(last', 1), "body_layer_I")

TraceLog ==
  /\ IsEvent("log") /\ QLog
  /\ LET e == Rec[l] want == RefLog(rules, ov, e.c)[1] IN
     /\ Judge(e.c = Cur.c, "script_mismatch")
     /\ Judge(e.out_t = (IF want = "dflt" THEN TRUE ELSE want = "on"), "log")
     /\ Judge(e.out_f = (IF want = "dflt" THEN FALSE ELSE want = "on"), "log")
     /\ Judge(e.out_t = e.out_plain_t /\ e.out_f = e.out_plain_f, TwinClass(e))
     /\ AppliedOK(e)

TraceHandoff ==
  /\ IsEvent("handoff") /\ Handoff
  /\ LET e == Rec[l] IN
     /\ Judge(e.ok, "handoff_decode")
     /\ Judge(e.h1 = e.h2, "handoff_reserialise")

TracePanic ==
  /\ IsEvent("panic")
  /\ Report("VERDICT", "panic")
  /\ UNCHANGED vars

TraceNext == TraceFold \/ TraceStatus \/ TraceHeaders \/ TraceBody \/ TraceLog \/ TraceHandoff \/ TracePanic
TraceSpec == TraceInit /\ [][TraceNext]_tvars

Accepted == LET d == TLCGet("stats").diameter IN
            IF d - 1 = Len(Rec) THEN PrintT(<<"ACCEPTED", Len(Rec)>>)
            ELSE Print(<<"REJECTED", d, IF d <= Len(Rec) THEN Rec[d] ELSE "eof">>, FALSE)
=============================================================================
