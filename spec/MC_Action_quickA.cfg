SPECIFICATION Spec
CONSTANTS
  Pool <- PoolAq
  MaxRules = 2
  Codes = {0, 200, 404, 500}
  Overrides = {"none"}
  Scripts <- ScriptsQuick
INVARIANTS FoldMeetsReference AppliedMeetsReference OrderIsTotal OnlyWindowRules Emit
CHECK_DEADLOCK FALSE
