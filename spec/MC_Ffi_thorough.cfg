SPECIFICATION Spec
CONSTANTS
  MaxCalls = 4
  Focus = {}
  MaxLive = 2
  Payloads = {"empty", "one", "html", "large", "partial"}
VIEW View
INVARIANTS UniqueIds Emit
CHECK_DEADLOCK FALSE
