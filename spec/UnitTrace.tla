------------------------------ MODULE UnitTrace ------------------------------
(* Attribution of effects to configuration units (src/action/mod.rs UnitTrace / WithTargetUnitTrace
   and the trace calls of the header actions), behind the "applied unit ids" of the analyses (C19).

   Every effect names a TARGET (a target hash: one header, "text", "configuration::log", ...) and
   the UNIT that produced it.  An adding effect joins the units of its target; an overriding
   effect replaces them.  After squashing, the applied units are, per target, the units that
   acted since the last override (inclusive); the seen units are all units ever named.

   Layer I: the map target -> set as the code keeps it.  Layer P: AppliedRef over the event history. *)
EXTENDS Naturals, Sequences, FiniteSets, TLC, SequencesExt, HeaderOps

CONSTANTS Targets, Units, MaxEvents
VARIABLES byTarget, direct, seen, hist
vars == <<byTarget, direct, seen, hist>>
Ev(k, t, u) == [k |-> k, t |-> t, u |-> u]

Init == byTarget = [t \in Targets |-> {}] /\ direct = {} /\ seen = {} /\ hist = <<>>
Add(t, u) == /\ Len(hist) < MaxEvents /\ byTarget' = [byTarget EXCEPT ![t] = @ \cup {u}]
             /\ seen' = seen \cup {u} /\ hist' = Append(hist, Ev("add", t, u)) /\ UNCHANGED direct
Override(t, u) == /\ Len(hist) < MaxEvents /\ byTarget' = [byTarget EXCEPT ![t] = {u}]
                  /\ seen' = seen \cup {u} /\ hist' = Append(hist, Ev("override", t, u)) /\ UNCHANGED direct
AddDirect(u) == /\ Len(hist) < MaxEvents /\ direct' = direct \cup {u} /\ seen' = seen \cup {u}
                /\ hist' = Append(hist, Ev("direct", "", u)) /\ UNCHANGED byTarget
Next == \E t \in Targets, u \in Units : Add(t, u) \/ Override(t, u) \/ AddDirect(u)
Spec == Init /\ [][Next]_vars

AppliedI == direct \cup UNION {byTarget[t] : t \in Targets}
\* layer P, from the history alone
LastOverride(h, t) == LET idx == {i \in 1..Len(h) : h[i].k = "override" /\ h[i].t = t} IN
                      IF idx = {} THEN 0 ELSE CHOOSE i \in idx : \A j \in idx : j <= i
AppliedRef(h) == {h[i].u : i \in {j \in 1..Len(h) : h[j].k = "direct" \/ (h[j].k \in {"add", "override"} /\ j >= LastOverride(h, h[j].t))}}
SeenRef(h) == {h[i].u : i \in 1..Len(h)}
AppliedMeetsReference == AppliedI = AppliedRef(hist) /\ seen = SeenRef(hist)

\* the unit events a header filter list causes on a header list (filters carry [op, name, value, id, target])
RECURSIVE FilterEvents(_,_,_)
FilterEvents(fs, i, h) ==
  IF i > Len(fs) THEN <<>>
  ELSE LET f == fs[i]
           present == Exists(h, f.name)
           n == Cardinality({k \in 1..Len(h) : Same(h[k].name, f.name)})
           evs == CASE f.op = "add" -> <<Ev("add", f.target, f.id)>>
                    [] f.op = "default" -> IF present THEN <<>> ELSE <<Ev("add", f.target, f.id)>>
                    [] f.op = "override" -> <<Ev("override", f.target, f.id)>>
                    [] f.op = "remove" -> <<Ev("override", f.target, f.id)>>
                    [] f.op = "replace" -> [k \in 1..n |-> Ev("override", f.target, f.id)]
                    [] OTHER -> <<>>
       IN evs \o FilterEvents(fs, i + 1, ApplyP(f, h))
=============================================================================
