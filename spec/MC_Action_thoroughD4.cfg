SPECIFICATION Spec
CONSTANTS
  Pool <- PoolD4
  MaxRules = 4
  Codes = {0, 200, 404, 500}
  Overrides = {"none"}
  Scripts <- ScriptsOne
INVARIANTS FoldMeetsReference AppliedMeetsReference OrderIsTotal OnlyWindowRules Emit
CHECK_DEADLOCK FALSE
