------------------------------ MODULE Tokenizer ------------------------------
(* The span contract of the HTML tokenizer's next() (src/html/mod.rs), property C16.

   The abstract machine knows nothing about HTML: it only says which sequences of
   (token type, raw span) a lossless, total tokenizer may produce for an input:
     - the raw span of every token starts where the previous one ended (contiguity);
     - a token other than Error consumes at least one byte (progress, hence at most one token
       per input byte);
     - Error is sticky: the first Error may still carry the bytes of an unfinished token, every
       later call returns Error with an empty span;
     - raw spans in order + the unread remainder = the input, after every call.
   The real tokenizer is bound to it by trace validation: every recorded call sequence must be a
   behaviour of this machine.                                                            *)
EXTENDS Naturals, Sequences, FiniteSets, TLC

TokenTypes == {"Error", "Text", "StartTag", "EndTag", "SelfClosingTag", "Comment", "Doctype"}

CONSTANTS Inputs      \* set of inputs (sequences of one-character strings)
VARIABLES inp, pos, n, err
vars == <<inp, pos, n, err>>

Init == inp \in Inputs /\ pos = 0 /\ n = 0 /\ err = FALSE

\* one call of next(): token of type ty whose raw span is the next len bytes
Call(ty, len) ==
  /\ pos + len <= Len(inp)
  /\ IF err THEN ty = "Error" /\ len = 0
     ELSE (ty # "Error" => len >= 1)
  /\ pos' = pos + len
  /\ err' = (err \/ ty = "Error")
  /\ n' = n + 1
  /\ UNCHANGED inp
\* bounded: stop two calls after the first Error
Next == \E ty \in TokenTypes, len \in 0..Len(inp) : (n <= Len(inp) + 3) /\ Call(ty, len)
Spec == Init /\ [][Next]_vars

Raw(k, len) == SubSeq(inp, k + 1, k + len)
Remainder == SubSeq(inp, pos + 1, Len(inp))
\* at most one token per input byte (+ the final Error)
TokenBound == ~err => n <= Len(inp)
Lossless == SubSeq(inp, 1, pos) \o Remainder = inp

-----------------------------------------------------------------------------
(* the contract as a check of a recorded call sequence: returns the class of the first violated
   clause, "ok" otherwise.  calls[i] = [t, raw, buf, acc] *)
RECURSIVE CheckCalls(_,_,_,_,_)
CheckCalls(input, calls, i, p, e) ==
  IF i > Len(calls) THEN (IF e THEN "ok" ELSE "no_final_error")
  ELSE LET c == calls[i] len == Len(c.raw) IN
       IF c.t \notin TokenTypes THEN "next_failed"
       ELSE IF p + len > Len(input) \/ c.raw # SubSeq(input, p + 1, p + len) THEN "span_not_contiguous"
       ELSE IF c.buf # SubSeq(input, p + len + 1, Len(input)) THEN "span_not_lossless"
       ELSE IF ~e /\ c.t # "Error" /\ len = 0 THEN "no_progress"
       ELSE IF e /\ (c.t # "Error" \/ len # 0) THEN "error_not_sticky"
       ELSE IF ~c.acc THEN "accessor_failed"
       ELSE CheckCalls(input, calls, i + 1, p + len, e \/ c.t = "Error")
NonErrorCalls(calls) == Cardinality({i \in 1..Len(calls) : calls[i].t # "Error"})
Contract(input, calls) ==
  IF NonErrorCalls(calls) > Len(input) THEN "too_many_tokens" ELSE CheckCalls(input, calls, 1, 0, FALSE)
=============================================================================
