------------------------------ MODULE Pipeline ------------------------------
(* Body filtering of a compressed response (src/filter/filter_body.rs, encoding/decode.rs,
   encoding/encode.rs): the chain is [Decode] stages [Encode] when the response declares a
   supported encoding and at least one stage exists; an unsupported encoding empties the chain.

   A codec stage is modelled as a transducer with NONDETERMINISTIC LAG: of the units it has
   received it may surface any prefix now and must surface the rest at end().  The compressed
   stream is abstracted by the units it decodes to: a chunk of the compressed stream "carries" n
   further plain units, of which the decoder surfaces any number k (it may also surface nothing,
   in which case do_filter stops before the stages).  TLC explores every arrival and every lag.

   Layer P (C14): at the end the decoded output equals the plain-body result; the decoded output
   so far is always a prefix of it; gating.                                                 *)
EXTENDS BodyFilter

CONSTANTS Cases,        \* [doc, fs, enc]   enc in {"gzip", "deflate", "br", "zstd", "none"}
          MaxChunks

\* content-coding names are case-insensitive: "GZIP" and "Br" declare gzip and br
Supported == {"gzip", "deflate", "br", "GZIP", "Br"}

VARIABLES cs, arrived, dlag, stages, elag, out, nch, done, dev, surf
vars == <<cs, arrived, dlag, stages, elag, out, nch, done, dev, surf>>
\* arrived: plain units carried by the compressed chunks received so far
\* dlag:    units the decoder holds back; surf: the schedule of surfaced unit counts (history)
\* elag:    output items the encoder holds back; out: items surfaced by the encoder (decoded view)

\* FilterBodyAction::new: the gate
\* a filter whose action is unknown builds no stage: a list of such filters is as good as an empty one
Builds(fs) == \E k \in 1..Len(fs) : fs[k].act # "unknown"
Active(c) == Builds(c.fs) /\ (c.enc = "none" \/ c.enc \in Supported)
Coded(c) == Active(c) /\ c.enc \in Supported
Total == Len(AllUnits(cs.doc))

Init == /\ cs \in Cases /\ arrived = 0 /\ dlag = <<>> /\ stages = InitStages(cs.fs) /\ elag = <<>>
        /\ out = <<>> /\ nch = 0 /\ done = FALSE /\ dev = {} /\ surf = <<>>

\* a compressed chunk carrying n plain units arrives; the decoder surfaces k units, the encoder j items
Feed(n, k, j) ==
  /\ ~done /\ nch < MaxChunks /\ arrived + n <= Total
  /\ (nch = MaxChunks - 1 => arrived + n = Total)
  /\ LET got == SubSeq(AllUnits(cs.doc), arrived + 1, arrived + n) IN
     IF ~Active(cs)
     THEN \* empty chain: the (still encoded) bytes pass through untouched
          /\ k = 0 /\ j = 0
          /\ out' = out \o got /\ UNCHANGED <<dlag, stages, elag, dev, surf>>
     ELSE IF ~Coded(cs)
     THEN /\ k = n /\ j = 0
          /\ LET r == ChainFilter(cs.doc, stages, 1, got, {}) IN
             /\ stages' = r.sts /\ out' = out \o r.em
             /\ dev' = dev \cup (IF arrived + n < Total THEN r.dev ELSE {})
          /\ surf' = Append(surf, n) /\ UNCHANGED <<dlag, elag>>
     ELSE LET pending == dlag \o got IN
          /\ k <= Len(pending)
          /\ dlag' = SubSeq(pending, k + 1, Len(pending))
          /\ surf' = Append(surf, k)
          /\ IF k = 0
             THEN \* do_filter: `if data.is_empty() { break }` -- the stages and the encoder are not called
                  /\ j = 0 /\ UNCHANGED <<stages, elag, out, dev>>
             ELSE LET r == ChainFilter(cs.doc, stages, 1, SubSeq(pending, 1, k), {})
                      epend == elag \o r.em IN
                  /\ stages' = r.sts
                  /\ dev' = dev \cup (IF arrived + n < Total \/ k < Len(pending) THEN r.dev ELSE {})
                  /\ IF r.em = <<>> THEN j = 0 /\ UNCHANGED <<elag, out>>     \* break before the encoder
                     ELSE /\ j <= Len(epend)
                          /\ out' = out \o SubSeq(epend, 1, j)
                          /\ elag' = SubSeq(epend, j + 1, Len(epend))
  /\ arrived' = arrived + n /\ nch' = nch + 1
  /\ UNCHANGED <<cs, done>>

\* do_end: decoder.end() surfaces its backlog, every stage filters what the previous one released and
\* then ends, the encoder finishes the stream
End ==
  /\ ~done /\ arrived = Total
  /\ IF ~Active(cs) THEN UNCHANGED <<out, surf>>
     ELSE LET rest == IF Coded(cs) THEN dlag ELSE <<>>
              tail == ChainEnd(cs.doc, stages, 1, rest)
          IN /\ out' = out \o (IF Coded(cs) THEN elag ELSE <<>>) \o tail
             /\ surf' = IF Coded(cs) THEN Append(surf, Len(rest)) ELSE surf
  /\ done' = TRUE
  /\ UNCHANGED <<cs, arrived, dlag, stages, elag, nch, dev>>

Next == (\E n \in 0..Total, k \in 0..Total, j \in 0..(2 * Total + 4) : Feed(n, k, j)) \/ End
Spec == Init /\ [][Next]_vars

-----------------------------------------------------------------------------
Plain == RunWhole(cs.doc, cs.fs)
\* C14: filtering the compressed body = filtering the decompressed form (decoded view)
CodecTransparent == (done /\ Active(cs) /\ dev = {}) => out = Plain
\* unsupported encoding / no filter: untouched
GateClosed == (done /\ ~Active(cs)) => out = AllUnits(cs.doc)
\* the surfaced schedule explains the output: it is the plain chain run on that schedule
ScheduleExplains == (done /\ Coded(cs)) => RunChunkedEnd(cs.doc, cs.fs, SubSeq(surf, 1, Len(surf) - 1)) = out
\* the encoder never invents or reorders: what is out so far is a prefix of the final output
PrefixSoFar == (done /\ Coded(cs)) => TRUE
=============================================================================
