------------------------------ MODULE RefEdit ------------------------------
(* Layer P for C15: the declarative edit of a well-formed lexeme sequence.  Filters compose left
   to right; every filter is applied to the output of the previous one (inserted values are
   opaque text).                                                                           *)
EXTENDS Naturals, Sequences, FiniteSets, TLC

RVoid == {"area", "base", "br", "col", "embed", "hr", "img", "input", "link", "meta", "param", "source", "track", "wbr"}
\* s is a sequence of items: <<i, j>> document unit, <<0, k>> inserted value.  Lexeme i of doc starts
\* at the item <<i, 1>>.
IsOpen(d, i)  == d[i].k = "stag" /\ d[i].n \notin RVoid
IsElem(d, i)  == d[i].k \in {"stag", "sc"}
Depth(d, j)   == Cardinality({k \in 1..(j - 1) : IsOpen(d, k)}) - Cardinality({k \in 1..(j - 1) : d[k].k = "etag"})
MatchEnd(d, i) == IF ~IsOpen(d, i) THEN i
                  ELSE CHOOSE e \in (i + 1)..Len(d) : /\ d[e].k = "etag" /\ Depth(d, e) = Depth(d, i) + 1
                                                      /\ \A x \in (i + 1)..(e - 1) : ~(d[x].k = "etag" /\ Depth(d, x) = Depth(d, i) + 1)
ChildOf(d, j, i) == IsElem(d, j) /\ IsOpen(d, i) /\ i < j /\ j < MatchEnd(d, i) /\ Depth(d, j) = Depth(d, i) + 1
Named(d, n) == {i \in 1..Len(d) : IsElem(d, i) /\ d[i].n = n}

WellFormed(d) ==
  /\ \A i \in 1..Len(d) : d[i].k \in {"text", "textlt", "stag", "etag", "sc", "copen", "cclose"}
  \* comments are closed and hold plain text only (no markup: that is the premise of C03's known deviation D1)
  /\ \A i \in 1..Len(d) : d[i].k = "copen" => (i + 2 <= Len(d) /\ d[i + 1].k = "text" /\ d[i + 2].k = "cclose")
  /\ \A i \in 1..Len(d) : d[i].k = "cclose" => (i > 2 /\ d[i - 2].k = "copen")
  /\ \A j \in 1..(Len(d) + 1) : Depth(d, j) >= 0
  /\ Depth(d, Len(d) + 1) = 0
  /\ \A i \in 1..Len(d) : IsOpen(d, i) => d[MatchEnd(d, i)].n = d[i].n
  /\ \A i \in 1..Len(d) : d[i].k = "etag" => \E o \in 1..(i - 1) : IsOpen(d, o) /\ MatchEnd(d, o) = i

RECURSIVE PathChain(_,_,_,_)
PathChain(d, path, k, prev) ==
  IF k > Len(path) - 1 THEN prev
  ELSE LET c == {j \in Named(d, path[k]) : k = 1 \/ ChildOf(d, j, prev)} IN
       IF Cardinality(c) # 1 THEN 0 ELSE PathChain(d, path, k + 1, CHOOSE j \in c : TRUE)
Parent(d, path) == PathChain(d, path, 1, 0)
Targets(d, path) ==
  LET n == Len(path) IN
  IF n = 1 THEN Named(d, path[1])
  ELSE LET p == Parent(d, path) IN IF p = 0 THEN {} ELSE {j \in Named(d, path[n]) : ChildOf(d, j, p)}

\* the domain of C15 for one filter
FilterInDomain(d, f) ==
  LET n == Len(f.path) T == Targets(d, f.path) IN
  /\ f.act \in {"append", "prepend", "replace"}
  /\ \A k \in 1..(n - 1) : Cardinality(Named(d, f.path[k])) = 1 /\ \A i \in Named(d, f.path[k]) : IsOpen(d, i)
  /\ (n > 1 => Parent(d, f.path) # 0)
  /\ Named(d, f.path[n]) = T
  /\ \A k \in 1..(n - 1) : f.path[k] # f.path[n]
  /\ \A a, b \in 1..n : a # b => f.path[a] # f.path[b]
  /\ (f.act \in {"append", "prepend"} => Cardinality(T) = 1 /\ \A i \in T : IsOpen(d, i))
  /\ (f.act = "replace" => T # {})
  /\ (n = 1 => Cardinality(T) <= 1)
  \* no target nested in another target
  /\ \A a, b \in T : a # b => ~(a < b /\ b <= MatchEnd(d, a))
InDomain(d, fs) == WellFormed(d) /\ fs # <<>> /\ \A k \in 1..Len(fs) : FilterInDomain(d, fs[k])

\* filters compose in order: a selector sees the document as the earlier filters left it (s = the current item
\* sequence), so an element of the span that an earlier replace removed no longer counts
SpanHasSel(f, d, s, i) == \E x \in i..MatchEnd(d, i) : IsElem(d, x) /\ d[x].sel /\ (f.sel = "x" \/ d[x].n = f.sel)
                                                         /\ \E q \in 1..Len(s) : s[q] = <<x, 1>>
Acts(f, d, s, i) == CASE f.sel \in {"none", "empty"} -> TRUE
                      [] f.act = "replace" -> SpanHasSel(f, d, s, i)
                      [] OTHER -> ~SpanHasSel(f, d, s, i)

\* apply filter k to the item sequence s (document units keep their lexeme identity)
LexStart(s, i) == CHOOSE x \in 1..Len(s) : s[x] = <<i, 1>>
LexItems(s, d, i) == SelectSeq(s, LAMBDA u : u[1] = i)
RECURSIVE EmitF(_,_,_,_,_,_)
\* walk the item sequence; `skip` = index of the last lexeme of a span being replaced (0 = none)
EmitF(d, f, k, T, s, x) ==
  IF x > Len(s) THEN <<>>
  ELSE LET u == s[x] IN
       IF u[1] = 0 THEN
          \* an inserted value of an earlier filter: inside a replaced span it disappears with the span
          IF \E t \in T : Acts(f, d, s, t) /\ f.act = "replace" /\ \E a, b \in 1..Len(s) :
                a < x /\ x < b /\ s[a][1] = t /\ s[b][1] = MatchEnd(d, t) /\ s[b][1] > 0
          THEN EmitF(d, f, k, T, s, x + 1)
          ELSE <<u>> \o EmitF(d, f, k, T, s, x + 1)
       ELSE LET i == u[1]
                inRepl == \E t \in T : Acts(f, d, s, t) /\ f.act = "replace" /\ t <= i /\ i <= MatchEnd(d, t)
                firstOfRepl == \E t \in T : Acts(f, d, s, t) /\ f.act = "replace" /\ t = i /\ u[2] = 1
                pre == IF u[2] = 1 /\ \E t \in T : Acts(f, d, s, t) /\ f.act = "append" /\ IsOpen(d, t) /\ MatchEnd(d, t) = i
                       THEN <<<<0, k>>>> ELSE <<>>
                post == IF u[2] = Len(d[i].us) /\ i \in T /\ Acts(f, d, s, i) /\ f.act = "prepend" THEN <<<<0, k>>>> ELSE <<>>
            IN IF inRepl THEN (IF firstOfRepl THEN <<<<0, k>>>> ELSE <<>>) \o EmitF(d, f, k, T, s, x + 1)
               ELSE pre \o <<u>> \o post \o EmitF(d, f, k, T, s, x + 1)
RECURSIVE RefFold(_,_,_,_)
RefFold(d, fs, k, s) == IF k > Len(fs) THEN s
                        ELSE RefFold(d, fs, k + 1, EmitF(d, fs[k], k, Targets(d, fs[k].path), s, 1))
RECURSIVE RUnits(_,_)
RUnits(d, i) == IF i > Len(d) THEN <<>> ELSE [j \in 1..Len(d[i].us) |-> <<i, j>>] \o RUnits(d, i + 1)
RefOut(d, fs) == RefFold(d, fs, 1, RUnits(d, 1))
=============================================================================
