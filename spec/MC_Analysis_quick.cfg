SPECIFICATION Spec
CONSTANTS
  Project = {"/a", "/b"}
  External = {"http://other.org/x", "mailto:x@y.z"}
  Codes = {200, 301, 307}
  MaxHopsSet = {0, 1, 2, 3}
  Methods = {"GET", "POST"}
INVARIANTS HopBound LoopIffRepeat ChainFollowsGraph StopReason Emit
CHECK_DEADLOCK FALSE
