SPECIFICATION TraceSpec
CONSTANTS
  Project = {}
  External = {}
  Codes = {}
  MaxHopsSet = {}
  Methods = {}
POSTCONDITION Accepted
CHECK_DEADLOCK FALSE
