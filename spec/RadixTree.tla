------------------------------ MODULE RadixTree ------------------------------
(* State machine of RegexTreeMap: any sequence of insert / remove / retain / cache, with the
   observers find / get / len checked in every reachable state against the linear scan
   (C08) and against the never-cached twin (C12).                                        *)
EXTENDS RadixOps

CONSTANTS Patterns,     \* set of token sequences
          Ids,          \* value ids (strings)
          Haystacks,    \* probe strings (sequences of characters)
          KeepSets,     \* id sets usable as retain predicates
          Limits, Levels,   \* cache arguments (Levels may contain NoLevel)
          IgnoreCase,   \* set of booleans
          MaxOps

VARIABLES tree,     \* the tree (layer I)
          live,     \* set of <<pattern, id, version>> (layer P state)
          ic,       \* case-insensitive tree?
          nops,
          ret,      \* what the last operation returned
          hist      \* operations so far (hidden from the state space by VIEW)
vars == <<tree, live, ic, nops, ret, hist>>
View == <<tree, live, ic, nops>>
\* finer view for small pools: one history per (state, sequence of operation KINDS), so that the same abstract state is
\* also reached through retain where another history reaches it through remove (hidden implementation state may differ)
ViewKinds == <<tree, live, ic, nops, [i \in 1..Len(hist) |-> hist[i].op]>>

Init == /\ tree = EmptyItem /\ live = {} /\ ic \in IgnoreCase /\ nops = 0 /\ ret = <<>> /\ hist = <<>>

VerOf(p, id) == IF \E e \in live : e[1] = p /\ e[2] = id THEN 2 ELSE 1

\* ids are unique across patterns; storing under an existing (pattern, id) replaces
DoInsert(p, id) ==
  /\ nops < MaxOps
  /\ \A e \in live : e[2] = id => e[1] = p
  /\ LET ver == VerOf(p, id) IN
     /\ tree' = Insert(tree, p, id, ver)
     /\ live' = {e \in live : ~(e[1] = p /\ e[2] = id)} \cup {<<p, id, ver>>}
     /\ hist' = Append(hist, [op |-> "insert", p |-> p, id |-> id, ver |-> ver, keep |-> {}, limit |-> 0, level |-> 0])
  /\ ret' = <<>> /\ nops' = nops + 1 /\ UNCHANGED ic

DoRemove(id) ==
  /\ nops < MaxOps
  /\ LET r == TRemove(tree, id) IN
     /\ tree' = r[1]
     /\ ret' = r[2]
  /\ live' = {e \in live : e[2] # id}
  /\ hist' = Append(hist, [op |-> "remove", p |-> <<>>, id |-> id, ver |-> 0, keep |-> {}, limit |-> 0, level |-> 0])
  /\ nops' = nops + 1 /\ UNCHANGED ic

DoRetain(keep) ==
  /\ nops < MaxOps /\ live # {}
  /\ tree' = Retain(tree, keep)
  /\ live' = {e \in live : e[2] \in keep}
  /\ hist' = Append(hist, [op |-> "retain", p |-> <<>>, id |-> "", ver |-> 0, keep |-> keep, limit |-> 0, level |-> 0])
  /\ ret' = <<>> /\ nops' = nops + 1 /\ UNCHANGED ic

DoCache(limit, level) ==
  /\ nops < MaxOps /\ live # {}
  /\ LET r == CacheTree(tree, limit, level) IN
     /\ tree' = r[1]
     /\ ret' = <<r[2]>>
  /\ hist' = Append(hist, [op |-> "cache", p |-> <<>>, id |-> "", ver |-> 0, keep |-> {}, limit |-> limit, level |-> level])
  /\ nops' = nops + 1 /\ UNCHANGED <<live, ic>>

Next == \/ \E p \in Patterns, id \in Ids : DoInsert(p, id)
        \/ \E id \in Ids : DoRemove(id)
        \/ \E k \in KeepSets : DoRetain(k)
        \/ \E li \in Limits, le \in Levels : DoCache(li, le)
Spec == Init /\ [][Next]_vars

-----------------------------------------------------------------------------
(* Layer P *)
LinearScanIn(L, icv, s) == {<<e[2], e[3]>> : e \in {x \in L : Matches(icv, x[1], s)}}
StoredIn(L, p) == {<<e[2], e[3]>> : e \in {x \in L : x[1] = p}}
LinearScan(s) == LinearScanIn(live, ic, s)
Stored(p) == StoredIn(live, p)

FindCorrect == \A s \in Haystacks : Find(ic, tree, s) = LinearScan(s)
LenCorrect == ItemLen(tree) = Cardinality(live)
GetCorrect == \A p \in Patterns : Get(tree, p) = Stored(p)
TreeInv == PrefixInv(tree)
\* a removal returns the value iff the id was live (action property, checked on ret)
RemoveReturnsValue ==
  (hist # <<>> /\ hist[Len(hist)].op = "remove") =>
     (ret # <<>> => ret[1][1] = hist[Len(hist)].id)
\* C12: compiled flags never influence answers -- Find does not read them; the twin relation is
\* checked on the real code; here: the budget is respected
RECURSIVE Strip(_)
Strip(it) == CASE it.k = "node" -> [it EXCEPT !.c = FALSE, !.ch = [i \in 1..Len(it.ch) |-> Strip(it.ch[i])]]
               [] it.k = "leaf" -> [it EXCEPT !.c = FALSE]
               [] OTHER -> it
CacheTransparent == \A s \in Haystacks : Find(ic, Strip(tree), s) = Find(ic, tree, s)
CacheBudget ==
  (hist # <<>> /\ hist[Len(hist)].op = "cache") => ret[1] <= hist[Len(hist)].limit
=============================================================================
