----------------------------- MODULE HeaderOps -----------------------------
(* The five response-header operations (+ unknown) of libredirectionio.

   Layer I  (code shaped): ApplyI mirrors src/filter/header_action/*.rs statement by
            statement (loops with a `found` flag, the filter's own spelling of the name
            written into rewritten entries, unknown actions dropped by
            create_header_action, FilterHeaderAction::new returning None when nothing is
            left).
   Layer P  (property C13): OpPost is the declarative meaning of each operation, names
            compared case-insensitively.  The verdict of a check only ever uses layer P.

   Header names are drawn from a small alphabet whose case relation is given by the
   operator Lower (a table, since TLA+ has no string functions).                        *)
EXTENDS Naturals, Sequences, FiniteSets, TLC, SequencesExt

Lower(n) == CASE n = "X-A" -> "x-a" [] n = "X-a" -> "x-a" [] n = "X-B" -> "x-b"
              [] n = "Location" -> "location" [] n = "LOCATION" -> "location"
              [] OTHER -> n
Same(x, y) == Lower(x) = Lower(y)

Hdr(n, v) == [name |-> n, value |-> v]
Flt(op, n, v) == [op |-> op, name |-> n, value |-> v]
KnownOps == {"add", "remove", "replace", "override", "default"}

Exists(h, n) == \E i \in 1..Len(h) : Same(h[i].name, n)

-----------------------------------------------------------------------------
(* Layer I: the code's loops *)

RECURSIVE RewriteLoop(_,_,_,_)
\* header_replace.rs / header_override.rs: walk, rewrite matching entries with the
\* filter's name and value; returns <<new_headers, found>>
RewriteLoop(h, i, f, acc) ==
  IF i > Len(h) THEN acc
  ELSE IF Lower(h[i].name) # Lower(f.name)
       THEN RewriteLoop(h, i + 1, f, <<Append(acc[1], h[i]), acc[2]>>)
       ELSE RewriteLoop(h, i + 1, f, <<Append(acc[1], Hdr(f.name, f.value)), TRUE>>)

RECURSIVE RemoveLoop(_,_,_,_)
RemoveLoop(h, i, f, acc) ==
  IF i > Len(h) THEN acc
  ELSE IF Lower(h[i].name) # Lower(f.name) THEN RemoveLoop(h, i + 1, f, Append(acc, h[i]))
       ELSE RemoveLoop(h, i + 1, f, acc)

RECURSIVE FoundLoop(_,_,_)
FoundLoop(h, i, f) ==
  IF i > Len(h) THEN FALSE
  ELSE IF Lower(h[i].name) = Lower(f.name) THEN TRUE ELSE FoundLoop(h, i + 1, f)

ApplyI(f, h) ==
  CASE f.op = "add"      -> Append(h, Hdr(f.name, f.value))
    [] f.op = "remove"   -> RemoveLoop(h, 1, f, <<>>)
    [] f.op = "replace"  -> RewriteLoop(h, 1, f, <<<<>>, FALSE>>)[1]
    [] f.op = "override" -> LET r == RewriteLoop(h, 1, f, <<<<>>, FALSE>>)
                            IN IF r[2] THEN r[1] ELSE Append(r[1], Hdr(f.name, f.value))
    [] f.op = "default"  -> IF FoundLoop(h, 1, f) THEN h ELSE Append(h, Hdr(f.name, f.value))
    [] OTHER             -> h      \* create_header_action returns None: filter dropped

RECURSIVE FoldI(_,_,_)
FoldI(fs, i, h) == IF i > Len(fs) THEN h ELSE FoldI(fs, i + 1, ApplyI(fs[i], h))

-----------------------------------------------------------------------------
(* Layer P: what C13 states.  Equality of header lists is up to the letter case of
   names (the property compares names case-insensitively and is silent on the spelling
   of a rewritten name); values and order are exact.                                  *)

EqCI(g, h) == /\ Len(g) = Len(h)
              /\ \A i \in 1..Len(h) : Same(g[i].name, h[i].name) /\ g[i].value = h[i].value

Others(h, n) == SelectSeq(h, LAMBDA e : ~Same(e.name, n))

\* OpPost(f, h, g): g is an admissible result of applying f to h
OpPost(f, h, g) ==
  CASE f.op = "add" ->      EqCI(g, Append(h, Hdr(f.name, f.value)))
    [] f.op = "remove" ->   /\ EqCI(g, Others(h, f.name))
                            /\ ~Exists(g, f.name)
    [] f.op = "replace" ->  /\ Len(g) = Len(h)
                            /\ \A i \in 1..Len(h) :
                                 IF Same(h[i].name, f.name)
                                 THEN Same(g[i].name, f.name) /\ g[i].value = f.value
                                 ELSE Same(g[i].name, h[i].name) /\ g[i].value = h[i].value
    [] f.op = "override" -> IF Exists(h, f.name)
                            THEN /\ Len(g) = Len(h)
                                 /\ \A i \in 1..Len(h) :
                                      IF Same(h[i].name, f.name)
                                      THEN Same(g[i].name, f.name) /\ g[i].value = f.value
                                      ELSE Same(g[i].name, h[i].name) /\ g[i].value = h[i].value
                            ELSE EqCI(g, Append(h, Hdr(f.name, f.value)))
    [] f.op = "default" ->  IF Exists(h, f.name) THEN EqCI(g, h)
                            ELSE EqCI(g, Append(h, Hdr(f.name, f.value)))
    [] OTHER ->             EqCI(g, h)

\* the reference fold (deterministic representative of OpPost, used for predictions)
ApplyP(f, h) ==
  LET rw == [i \in 1..Len(h) |-> IF Same(h[i].name, f.name) THEN Hdr(f.name, f.value) ELSE h[i]] IN
  CASE f.op = "add"      -> Append(h, Hdr(f.name, f.value))
    [] f.op = "remove"   -> Others(h, f.name)
    [] f.op = "replace"  -> rw
    [] f.op = "override" -> IF Exists(h, f.name) THEN rw ELSE Append(rw, Hdr(f.name, f.value))
    [] f.op = "default"  -> IF Exists(h, f.name) THEN h ELSE Append(h, Hdr(f.name, f.value))
    [] OTHER             -> h
RECURSIVE HeaderOpsFold(_,_,_)
HeaderOpsFold(fs, i, h) == IF i > Len(fs) THEN h ELSE HeaderOpsFold(fs, i + 1, ApplyP(fs[i], h))

\* frame condition: the headers a filter does not name keep value and relative order
Untouched(f, h, g) == f.op \in KnownOps => EqCI(Others(h, f.name), Others(g, f.name))
=============================================================================
