SPECIFICATION TraceSpec
CONSTANTS
  Patterns <- PUp
  Ids = {"i1", "i2", "i3", "i4"}
  Haystacks = {}
  KeepSets = {}
  Limits = {}
  Levels = {}
  IgnoreCase = {FALSE, TRUE}
  MaxOps = 1000000
POSTCONDITION Accepted
CHECK_DEADLOCK FALSE
