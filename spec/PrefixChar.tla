----------------------------- MODULE PrefixChar -----------------------------
(* The abstraction theorem behind the radix tree model: on patterns of the shape rules produce
   (escaped literals and parenthesised marker groups) the character-level function
   common_prefix_char_size always cuts at a token boundary, never beyond the longest common
   token prefix, so a node prefix is always a valid regex that matches every string its
   children match.  TLC checks it for all pairs of token sequences up to MaxLen; every pair is
   also replayed into the real (private) function through hook H2.                          *)
EXTENDS RadixOps, Json

CONSTANTS Tokens, MaxLen
VARIABLES p, q
Seqs == UNION {[1..n -> Tokens] : n \in 0..MaxLen}
Init == p \in Seqs /\ q \in Seqs
Next == UNCHANGED <<p, q>>
Spec == Init /\ [][Next]_<<p, q>>

Cut == CharPrefixLen(ConcSeq(p), ConcSeq(q))
CutAtTokenBoundary == TokensInChars(p, Cut) >= 0 /\ TokensInChars(q, Cut) >= 0
CutWithinCommonTokens == TokensInChars(p, Cut) <= TokPrefixLen(p, q)
\* maximal sharing whenever the tokens after the common prefix start with different characters
CutIsCommonTokens == TokensInChars(p, Cut) = TokPrefixLen(p, q)

RECURSIVE JoinStr(_,_)
JoinStr(s, i) == IF i > Len(s) THEN "" ELSE s[i] \o JoinStr(s, i + 1)
Emit == PrintT(<<"REPLAY", ToJson([pa |-> p, pb |-> q, a |-> JoinStr(ConcSeq(p), 1), b |-> JoinStr(ConcSeq(q), 1)])>>)
=============================================================================
