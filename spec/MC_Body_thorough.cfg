SPECIFICATION Spec
CONSTANTS
  Cases <- CasesAll
  MaxChunks = 3
INVARIANTS ChunkInvariant RunChunkedAgrees Conservation PassThroughWhenInert EditCorrect Emit
CHECK_DEADLOCK FALSE
