SPECIFICATION Spec
CONSTANTS
  Tokens = {"a", "/", ".", "E(", "BS", "AS", "LOW", "ASP", "NEST", "NS", "OPT", "CLS", "CLB", "ANY"}
  MaxLen = 3
INVARIANTS CutAtTokenBoundary CutWithinCommonTokens CutIsCommonTokens
CHECK_DEADLOCK FALSE
