\* two hosts in the project: a host-less Location must be joined to the URL of the hop that answered it
SPECIFICATION Spec
CONSTANTS
  Project = {"/a", "@2/a", "@2/b"}
  External = {"http://other.org/x"}
  Codes = {200, 301, 303}
  MaxHopsSet = {3}
  Methods = {"GET"}
INVARIANTS HopBound LoopIffRepeat ChainFollowsGraph StopReason Emit
CHECK_DEADLOCK FALSE
