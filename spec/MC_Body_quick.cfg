SPECIFICATION Spec
CONSTANTS
  Cases <- CasesQuick
  MaxChunks = 2
INVARIANTS ChunkInvariant RunChunkedAgrees Conservation PassThroughWhenInert EditCorrect Emit
CHECK_DEADLOCK FALSE
