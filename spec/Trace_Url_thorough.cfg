SPECIFICATION TraceSpec
CONSTANTS
  Urls <- UrlsThorough
  Cfgs <- CfgsAll
POSTCONDITION Accepted
CHECK_DEADLOCK FALSE
