SPECIFICATION Spec
CONSTANTS
  Patterns <- PNest
  Ids = {"i1", "i2", "i3", "i4", "i5"}
  Haystacks <- ProbesNest
  KeepSets = {{"i1", "i2", "i3", "i4"}}
  Limits = {9}
  Levels = {99}
  IgnoreCase = {FALSE}
  MaxOps = 5
VIEW View
CONSTRAINT NestOnly
INVARIANTS FindCorrect LenCorrect GetCorrect TreeInv RemoveReturnsValue CacheTransparent CacheBudget Emit
CHECK_DEADLOCK FALSE
