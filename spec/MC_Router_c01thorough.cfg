SPECIFICATION Spec
CONSTANTS
  Pool <- PoolFull
  Cfgs <- CfgsAll
  OpKinds = {"insert"}
  MaxOps = 2
  MaxRules = 2
  ReqUniverse <- Universe
VIEW View
INVARIANTS NoMissNoSpurious IncrementalEqualsRebuild UniqueIds Emit
PROPERTY Isolation
CHECK_DEADLOCK FALSE
