SPECIFICATION TraceSpec
CONSTANTS
  MaxCalls = 100
  Focus = {}
  MaxLive = 100
  Payloads = {}
POSTCONDITION Accepted
CHECK_DEADLOCK FALSE
