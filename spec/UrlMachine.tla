----------------------------- MODULE UrlMachine -----------------------------
(* For every configuration and every rule URL of the universe, compare the code-shaped match
   (layer I) with the canonical-form match (layer P) against EVERY request URL of the universe:
   self match, discrimination, permutation, marketing parameters, letter case and re-encoding
   are all instances of  match(rule(u), req(v))  <=>  Canonical(u) = Canonical(v).            *)
EXTENDS Url
CONSTANTS Urls, Cfgs
VARIABLES cfg, ru
vars == <<cfg, ru>>
Init == cfg \in Cfgs /\ ru \in {u \in Urls : RuleSpace(u, cfg)}
Next == UNCHANGED vars
Spec == Init /\ [][Next]_vars

Comparable(v) == CleanKeys(ru, cfg) /\ CleanKeys(v, cfg)
\* I => P outside the named deviation classes
MatchMeetsCanonical ==
  \A v \in Urls : Comparable(v) =>
     (MatchI(ru, v, cfg) = MatchP(ru, v, cfg) \/ DeviationClass(ru, v, cfg) # "url_match_wrong")
\* with marketing parameters ignored and case sensitive matching there is no deviation at all
ExactWhenNormalising ==
  (cfg.mkt /\ ~cfg.icase) => \A v \in Urls : Comparable(v) => MatchI(ru, v, cfg) = MatchP(ru, v, cfg)
SelfMatchWhenNormalising == cfg.mkt => MatchI(ru, ru, cfg)
=============================================================================
