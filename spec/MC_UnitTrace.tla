----------------------------- MODULE MC_UnitTrace -----------------------------
EXTENDS UnitTrace, Json
Emit == Len(hist) = MaxEvents => PrintT(<<"REPLAY", ToJson([kind |-> "events", events |-> hist])>>)
\* header filter lists with unit ids: two filters may share a target (the same header) or not
F(op, n, id, t) == [op |-> op, name |-> n, value |-> "v" \o id, id |-> id, target |-> t]
FPool == {F(op, n, id, t) : op \in {"add", "default", "override", "remove", "replace"}, n \in {"x-a", "X-A"}, id \in {"u1", "u2"}, t \in {"t1"}}
         \cup {F(op, "x-b", "u3", "t2") : op \in {"add", "override"}}
HLists == {<<>>, <<[name |-> "x-a", value |-> "1"]>>, <<[name |-> "X-A", value |-> "1"], [name |-> "x-a", value |-> "2"]>>}
FilterCases == PrintT(<<"FILTERCASES", ToJson(SetToSeq({[kind |-> "filters", h |-> h, fs |-> <<a, b>>] : h \in HLists, a \in FPool, b \in FPool}))>>)
ASSUME FilterCases
=============================================================================
