SPECIFICATION TraceSpec
CONSTANTS
  Pool = {}
  MaxRules = 4
  Codes = {0, 200, 404, 500}
  Overrides = {"none"}
  Scripts = {}
POSTCONDITION Accepted
CHECK_DEADLOCK FALSE
