SPECIFICATION Spec
CONSTANTS
  Pool <- PoolIps
  Cfgs <- CfgsOne
  OpKinds = {"insert", "fork"}
  MaxOps = 3
  MaxRules = 3
  ReqUniverse <- Universe
VIEW View
INVARIANTS NoMissNoSpurious IncrementalEqualsRebuild UniqueIds EmitFork
CONSTRAINT ForkLast
CHECK_DEADLOCK FALSE
