SPECIFICATION Spec
CONSTANTS
  Pool <- PoolFt
  MaxRules = 3
  Codes = {0, 200, 404, 500}
  Overrides = {"none", "true", "false"}
  Scripts <- ScriptsOne
INVARIANTS FoldMeetsReference AppliedMeetsReference OrderIsTotal OnlyWindowRules Emit
CHECK_DEADLOCK FALSE
