----------------------------- MODULE Trace_Router -----------------------------
(* Trace validation for the router machine (C01, C02, C17; C12 router level; C06 requests).

   reset  {cfg}
   insert / remove / batch_remove / change_set / fork / cache
          {o = [op, h, ids, rules, upd], ret?, twin_ret?, obs = [{h, o = [len, byid, pr]}]}
   pr     one record per probe request q (compact tuple):
            ids   sorted ids matched by the handle for rebuild_request(q)   (bag: duplicates kept)
            rb    ids matched by a router rebuilt from the live rules      (present only if # ids)
            c     ids matched by the cache-warmed twin                     (present only if # ids)
            tr    ids found in the explain trace                           (present only if # set(ids))
            ctr   ids in the twin's explain trace                          (present only if # tr)
            fin, gr   priority of the traced final route / of get_route    (<<>> when none)
            tg, ctg   id=target strings (captures) of the handle / the twin (ctg only if # tg)
            rq    ids matched after a JSON round trip of the request       (present only if # ids)

   classes  C01/C02: match_missing match_spurious match_duplicate
            C02: rebuild_differs len get_by_id remove_return
            C12: cache_changes_match cache_changes_capture cache_changes_trace cache_changes_remove
            C17: trace_routes_differ trace_final_priority
            C06: request_json_roundtrip                                                    *)
EXTENDS MC_Router, IOUtils

TraceLog == ndJsonDeserialize(IOEnv.TRACE)
VARIABLES l
tvars == <<vars, l>>
Report(tag, cls) == PrintT(<<tag, l, cls>>)
Judge(ok, cls) == IF ok THEN TRUE ELSE Report("VERDICT", cls)
Drift(ok, cls) == IF ok THEN TRUE ELSE Report("DRIFT", cls)
IsEvent(e) == l <= Len(TraceLog) /\ TraceLog[l].ev = e /\ l' = l + 1
Has(r, f) == f \in DOMAIN r

ReqOf(t) == [scheme |-> t[1], host |-> t[2], ip |-> t[3], method |-> t[4], hdrs |-> Universe.hdrs[t[5]], at |-> t[6], path |-> t[7]]

ProbeOK(p, c, L, I) ==
  LET q == ReqOf(p.q) want == MatchP(c, L, q) got == ToSet(p.ids) IN
  /\ Judge(want \subseteq got, "match_missing")
  /\ Judge(got \subseteq want, "match_spurious")
  /\ Judge(Len(p.ids) = Cardinality(got), "match_duplicate")
  /\ Judge(~Has(p, "rb"), "rebuild_differs")
  /\ Judge(~Has(p, "c"), "cache_changes_match")
  /\ Judge(~Has(p, "ctg"), "cache_changes_capture")
  /\ Judge(~Has(p, "ctr"), "cache_changes_trace")
  /\ Judge(~Has(p, "tr"), "trace_routes_differ")
  /\ Judge(p.fin = p.gr, "trace_final_priority")
  /\ Judge(~Has(p, "rq"), "request_json_roundtrip")
  /\ Drift(got = MatchI(c, I, q), "match_layer_I")

ObsOK(e, c, LL, II) ==
  \A i \in 1..Len(e.obs) :
    LET h == e.obs[i].h o == e.obs[i].o IN
    /\ Judge(o.len = Cardinality(LL[h]), "len")
    /\ Judge(ToSet(o.byid) = Ids(LL[h]), "get_by_id")
    /\ \A k \in 1..Len(o.pr) : ProbeOK(o.pr[k], c, LL[h], II[h])
HandlesSeen(e) == {e.obs[i].h : i \in 1..Len(e.obs)}

TraceReset ==
  /\ IsEvent("reset")
  /\ cfg' = TraceLog[l].cfg
  /\ live' = [h \in Handles |-> {}] /\ index' = [h \in Handles |-> {}]
  /\ forked' = FALSE /\ nops' = 0 /\ ret' = <<>> /\ hist' = <<>>

After(e) == /\ ObsOK(e, cfg', live', index')
            /\ Judge(HandlesSeen(e) = {h \in Handles : h = 1 \/ forked'}, "handles")

TraceInsert == /\ IsEvent("insert")
               /\ LET e == TraceLog[l] IN Insert(e.o.h, e.o.rules[1]) /\ After(e)
TraceRemove == /\ IsEvent("remove")
               /\ LET e == TraceLog[l] IN
                  /\ RemoveRule(e.o.h, e.o.ids[1])
                  /\ Judge(e.ret = ret', "remove_return")
                  /\ Judge(e.ret = e.twin_ret, "cache_changes_remove")
                  /\ After(e)
TraceBatch ==  /\ IsEvent("batch_remove")
               /\ LET e == TraceLog[l] IN BatchRemove(e.o.h, ToSet(e.o.ids)) /\ After(e)
TraceChange == /\ IsEvent("change_set")
               /\ LET e == TraceLog[l] IN ChangeSet(e.o.h, ToSet(e.o.rules), ToSet(e.o.upd), ToSet(e.o.ids)) /\ After(e)
TraceFork ==   /\ IsEvent("fork")
               /\ LET e == TraceLog[l] IN Fork(ToSet(e.o.rules), ToSet(e.o.upd), ToSet(e.o.ids)) /\ After(e)
TraceCache ==  /\ IsEvent("cache")
               /\ LET e == TraceLog[l] IN Cache(e.o.h) /\ After(e)
TracePanic == IsEvent("panic") /\ Report("VERDICT", "panic") /\ UNCHANGED vars

TraceNext == TraceReset \/ TraceInsert \/ TraceRemove \/ TraceBatch \/ TraceChange \/ TraceFork \/ TraceCache \/ TracePanic
TraceSpec == Init /\ l = 1 /\ [][TraceNext]_tvars

Accepted == LET d == TLCGet("stats").diameter IN
            IF d - 1 = Len(TraceLog) THEN PrintT(<<"ACCEPTED", Len(TraceLog)>>)
            ELSE Print(<<"REJECTED", d, IF d <= Len(TraceLog) THEN TraceLog[d].ev ELSE "eof">>, FALSE)
=============================================================================
