SPECIFICATION Spec
CONSTANTS
  Pool <- PoolPaths2
  Cfgs <- CfgsOne
  OpKinds = {"insert", "remove", "batch_remove", "change_set", "cache"}
  MaxOps = 4
  MaxRules = 3
  ReqUniverse <- Universe
VIEW ViewKinds
INVARIANTS NoMissNoSpurious IncrementalEqualsRebuild UniqueIds Emit
CHECK_DEADLOCK FALSE
