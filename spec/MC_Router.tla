------------------------------ MODULE MC_Router ------------------------------
(* Model-checking instances of RouterMachine: rule pools, request universe, behaviour dump. *)
EXTENDS RouterMachine, Json

Base(id) == [id |-> id, scheme |-> "", host |-> <<"none", "">>, ips |-> <<>>, methods |-> <<>>, excl |-> FALSE,
             hdrs |-> <<>>, dates |-> <<>>, times |-> <<>>, wds |-> <<>>, path |-> <<"static", "/a">>]
H(n, k, v) == [name |-> n, kind |-> k, value |-> v]
W1 == <<"2024-03-10T12:00:00Z", "2024-03-10T13:00:00Z">>
W2 == <<"2024-03-11T00:00:00Z", "">>
TW == <<"12:00:00", "13:00:00">>
\* W1 once more, its bounds written with UTC offsets
W1off == <<"2024-03-10T14:00:00+02:00", "2024-03-10T08:00:00-05:00">>

\* ---- single-trigger variants: each is a function from a base rule to a rule ----------------
VScheme(b) == {[b EXCEPT !.scheme = s] : s \in {"http", "https"}}
\* ("ab.example.com" is also accepted by the dynamic host: a literal-host rule and a pattern-host rule for the same host)
VHost(b) == {[b EXCEPT !.host = h] : h \in {<<"static", "example.com">>, <<"static", "Example.COM">>, <<"static", "other.org">>, <<"static", "ab.example.com">>, <<"dyn", "@sub.example.com">>}}
VIps(b) == {[b EXCEPT !.ips = i] : i \in { <<<<"in", "10.0.0.0/8">>>>, <<<<"in", "10.1.0.0/16">>>>, <<<<"not_in", "10.1.0.0/16">>>>,
                                            <<<<"in", "10.0.0.0/8">>, <<"in", "10.1.0.0/16">>>>, <<<<"in", "10.1.0.0/16">>, <<"not_in", "10.0.0.0/8">>>>,
                                            <<<<"in", "::/0">>>> }}
VMethods(b) == {[b EXCEPT !.methods = m[1], !.excl = m[2]] : m \in { <<<<"GET">>, FALSE>>, <<<<"GET", "POST">>, FALSE>>, <<<<"POST">>, FALSE>>,
                                                                      <<<<"GET">>, TRUE>>, <<<<"GET", "POST">>, TRUE>> }}
HdrKinds == {"is_defined", "is_not_defined", "is_equals", "is_not_equal_to", "contains", "does_not_contain", "starts_with", "ends_with"}
VHdrs(b) == {[b EXCEPT !.hdrs = <<H("X-K", k, "v")>>] : k \in HdrKinds}
            \cup {[b EXCEPT !.hdrs = <<H("X-K", "is_equals", "V")>>], [b EXCEPT !.hdrs = <<H("x-k", "contains", "V")>>],
                  [b EXCEPT !.hdrs = <<H("X-K", "match_regex", "k-@m")>>], [b EXCEPT !.hdrs = <<H("X-K", "match_regex", "K-@m")>>],
                  [b EXCEPT !.hdrs = <<H("X-K", "is_defined", ""), H("X-J", "is_equals", "v")>>],
                  [b EXCEPT !.hdrs = <<H("X-K", "contains", "v"), H("X-J", "is_not_defined", "")>>],
                  \* two groups sharing a condition, the first group also holding a smaller (failing) one
                  [b EXCEPT !.hdrs = <<H("X-J", "is_defined", ""), H("X-K", "is_defined", "")>>]}
VDates(b) == {[b EXCEPT !.dates = <<W1>>], [b EXCEPT !.dates = <<W2>>], [b EXCEPT !.dates = <<W1, W2>>],
              [b EXCEPT !.times = <<TW>>], [b EXCEPT !.wds = <<"Sun">>], [b EXCEPT !.wds = <<"Mon", "Tue">>],
              [b EXCEPT !.dates = <<W1>>, !.times = <<TW>>], [b EXCEPT !.times = <<TW>>, !.wds = <<"Mon">>],
              [b EXCEPT !.dates = <<<<"", "2024-03-10T12:00:00Z">>>>], [b EXCEPT !.dates = <<W1off>>]}
VPath(b) == {[b EXCEPT !.path = p] : p \in {<<"static", "/A">>, <<"static", "/b">>, <<"dyn", "/x/@m">>, <<"dyn", "/x/@m/y">>, <<"dyn", "/X/@m">>, <<"dyn", "/X/@m/y">>, <<"dyn", "/X/y/@m">>}}
Singles(b) == {b} \cup VScheme(b) \cup VHost(b) \cup VIps(b) \cup VMethods(b) \cup VHdrs(b) \cup VDates(b) \cup VPath(b)
\* multi-layer combinations
Combos(b) == {
  [b EXCEPT !.host = <<"dyn", "@sub.example.com">>, !.ips = <<<<"in", "10.1.0.0/16">>>>, !.methods = <<"GET">>, !.excl = TRUE,
            !.hdrs = <<H("X-K", "contains", "v")>>, !.times = <<TW>>],
  [b EXCEPT !.scheme = "https", !.host = <<"static", "example.com">>, !.path = <<"dyn", "/x/@m">>],
  [b EXCEPT !.scheme = "http", !.methods = <<"GET", "POST">>, !.wds = <<"Sun">>],
  [b EXCEPT !.host = <<"static", "example.com">>, !.hdrs = <<H("X-K", "is_equals", "v")>>, !.dates = <<W1>>],
  [b EXCEPT !.ips = <<<<"in", "10.0.0.0/8">>, <<"in", "10.1.0.0/16">>>>, !.methods = <<"GET", "POST">>],
  [b EXCEPT !.scheme = "https", !.path = <<"static", "/A">>, !.hdrs = <<H("X-K", "match_regex", "k-@m")>>] }

PoolFull == Singles(Base("r1")) \cup Singles(Base("r2")) \cup Combos(Base("r1")) \cup Combos(Base("r2")) \cup Combos(Base("r3")) \cup {Base("r3")}
\* quick: a covering sub-pool
QuickPick(b) == {b, [b EXCEPT !.scheme = "https"], [b EXCEPT !.host = <<"static", "Example.COM">>], [b EXCEPT !.host = <<"dyn", "@sub.example.com">>],
                 [b EXCEPT !.host = <<"static", "ab.example.com">>, !.path = <<"static", "/b">>],
                 [b EXCEPT !.ips = <<<<"in", "10.0.0.0/8">>, <<"in", "10.1.0.0/16">>>>], [b EXCEPT !.ips = <<<<"not_in", "10.1.0.0/16">>>>],
                 [b EXCEPT !.methods = <<"GET", "POST">>, !.excl = TRUE], [b EXCEPT !.methods = <<"POST">>],
                 \* an exclusion that a POST passes: next to the rule for POST, one request is answered by an explicit bucket AND an exclusion bucket
                 [b EXCEPT !.methods = <<"GET">>, !.excl = TRUE],
                 [b EXCEPT !.hdrs = <<H("X-K", "is_not_equal_to", "v")>>], [b EXCEPT !.hdrs = <<H("X-K", "contains", "v"), H("X-J", "is_not_defined", "")>>],
                 [b EXCEPT !.hdrs = <<H("X-K", "match_regex", "k-@m")>>], [b EXCEPT !.hdrs = <<H("X-K", "match_regex", "K-@m")>>],
                 [b EXCEPT !.hdrs = <<H("X-J", "is_defined", ""), H("X-K", "is_defined", "")>>], [b EXCEPT !.hdrs = <<H("X-K", "is_defined", "")>>],
                 [b EXCEPT !.dates = <<W1>>], [b EXCEPT !.dates = <<W1off>>], [b EXCEPT !.times = <<TW>>, !.wds = <<"Mon">>],
                 \* a weekday list that is a prefix of another one, next to the same time window
                 [b EXCEPT !.times = <<TW>>, !.wds = <<"Mon", "Tue">>],
                 \* two date groups that share their last condition (the weekday) and differ by an earlier one
                 [b EXCEPT !.dates = <<W1>>, !.wds = <<"Sun">>], [b EXCEPT !.dates = <<W2>>, !.wds = <<"Sun">>],
                 [b EXCEPT !.path = <<"static", "/A">>], [b EXCEPT !.path = <<"dyn", "/x/@m">>], [b EXCEPT !.path = <<"dyn", "/x/@m/y">>],
                 [b EXCEPT !.path = <<"dyn", "/X/@m">>], [b EXCEPT !.path = <<"dyn", "/X/@m/y">>], [b EXCEPT !.path = <<"dyn", "/X/y/@m">>]}
PoolQuick == QuickPick(Base("r1")) \cup QuickPick(Base("r2")) \cup Combos(Base("r3"))

\* histories (C02): few rules whose host / path patterns force tree splits and collapses, two versions of some ids
PoolHist == { Base("r1"), [Base("r1") EXCEPT !.path = <<"dyn", "/X/@m">>],
              [Base("r2") EXCEPT !.path = <<"dyn", "/X/@m/y">>], [Base("r2") EXCEPT !.host = <<"dyn", "@sub.example.com">>],
              [Base("r3") EXCEPT !.path = <<"dyn", "/x/@m">>, !.host = <<"dyn", "@sub.example.com">>],
              [Base("r3") EXCEPT !.host = <<"static", "example.com">>, !.ips = <<<<"in", "10.0.0.0/8">>, <<"not_in", "10.1.0.0/16">>>>],
              [Base("r4") EXCEPT !.scheme = "https", !.methods = <<"GET", "POST">>],
              [Base("r4") EXCEPT !.hdrs = <<H("X-K", "contains", "v")>>, !.times = <<TW>>] }
\* path-sensitive exploration (VIEW ViewKinds): rules sharing a static path and bucket, a rule under two method buckets, dynamic host
PoolPaths == { Base("r1"), Base("r4"), [Base("r3") EXCEPT !.path = <<"dyn", "/x/@m">>, !.methods = <<"GET", "POST">>],
               [Base("r2") EXCEPT !.host = <<"dyn", "@sub.example.com">>] }
\* second path-sensitive universe: rules sharing a header condition (alone / inside a larger group), date and time / weekday windows
PoolPaths2 == { [Base("r1") EXCEPT !.hdrs = <<H("X-K", "is_defined", "")>>],
                [Base("r4") EXCEPT !.hdrs = <<H("X-J", "is_defined", ""), H("X-K", "is_defined", "")>>],
                [Base("r2") EXCEPT !.hdrs = <<H("X-K", "is_defined", "")>>],      \* the same condition set as r1
                [Base("r2") EXCEPT !.dates = <<W1>>],
                \* (this one also sits in a network bucket that holds nothing but a rule with an EXCLUDED method)
                [Base("r3") EXCEPT !.times = <<TW>>, !.wds = <<"Sun">>, !.ips = <<<<"in", "10.0.0.0/8">>>>, !.methods = <<"GET">>, !.excl = TRUE] }
\* insertion orders (VIEW ViewOrder): dynamic paths and hosts whose place in the regex trees depends on the order
PoolOrders == { [Base("r1") EXCEPT !.path = <<"dyn", "/x/@m">>], [Base("r2") EXCEPT !.path = <<"dyn", "/x/@m/y">>],
                [Base("r3") EXCEPT !.path = <<"dyn", "/X/@m">>], [Base("r4") EXCEPT !.path = <<"dyn", "/X/y/@m">>],
                [Base("r2") EXCEPT !.host = <<"dyn", "@sub.example.com">>],
                [Base("r3") EXCEPT !.host = <<"dyn", "@sub.example.com">>, !.path = <<"dyn", "/x/@m">>],
                \* condition groups whose keys are prefixes of one another; nested networks (several buckets accept one address)
                [Base("r1") EXCEPT !.times = <<TW>>, !.wds = <<"Mon">>], [Base("r4") EXCEPT !.times = <<TW>>, !.wds = <<"Mon", "Tue">>],
                [Base("r2") EXCEPT !.ips = <<<<"in", "10.0.0.0/8">>>>], [Base("r3") EXCEPT !.ips = <<<<"in", "10.1.0.0/16">>>>],
                [Base("r4") EXCEPT !.ips = <<<<"not_in", "10.1.0.0/16">>>>] }
PoolHistQ == { Base("r1"), [Base("r1") EXCEPT !.path = <<"dyn", "/X/@m">>], [Base("r1") EXCEPT !.path = <<"dyn", "/X/@n">>],
               [Base("r2") EXCEPT !.path = <<"dyn", "/X/@m/y">>], [Base("r2") EXCEPT !.host = <<"dyn", "@sub.example.com">>],
               [Base("r3") EXCEPT !.host = <<"static", "example.com">>, !.ips = <<<<"in", "10.0.0.0/8">>, <<"not_in", "10.1.0.0/16">>>>],
               \* a rule filed under several buckets of one layer (two methods), and a second plain rule sharing r1's static path
               [Base("r3") EXCEPT !.path = <<"dyn", "/x/@m">>, !.methods = <<"GET", "POST">>], Base("r4") }

\* several rules that each sit in several network buckets accepting the same address (a trace meets each of them more than once, interleaved)
TwoNets == <<<<"in", "10.0.0.0/8">>, <<"in", "10.1.0.0/16">>>>
PoolIps == { [Base("r1") EXCEPT !.ips = TwoNets], [Base("r4") EXCEPT !.ips = <<TwoNets[2], TwoNets[1]>>], [Base("r3") EXCEPT !.ips = TwoNets], Base("r2"),
             [Base("r2") EXCEPT !.ips = <<<<"in", "10.1.0.0/16">>>>] }

\* mkt (ignore marketing parameters) follows ipc: the probes carry no marketing parameter, the flag only selects the
\* code path of the request normalisation (with both off the URL is not rewritten at all)
Cfg(a, b, c, d) == [ihc |-> a, ihdr |-> b, ipc |-> c, always |-> d, mkt |-> c]
CfgsAll == {Cfg(a, b, c, d) : a, b, c, d \in BOOLEAN}
CfgsQuick == {Cfg(FALSE, FALSE, FALSE, TRUE), Cfg(TRUE, TRUE, TRUE, FALSE), Cfg(FALSE, FALSE, FALSE, FALSE), Cfg(TRUE, TRUE, TRUE, TRUE), Cfg(TRUE, TRUE, FALSE, FALSE)}
CfgsTwo == {Cfg(FALSE, FALSE, FALSE, TRUE), Cfg(TRUE, TRUE, TRUE, FALSE)}
CfgsOne == {Cfg(FALSE, FALSE, FALSE, TRUE)}

HL(n, v) == [name |-> n, value |-> v]
Universe == [ scheme |-> <<"http", "https", "", "HTTPS">>,     \* schemes are compared as given: "HTTPS" is not "https"
              host |-> <<"example.com", "ab.example.com", "EXAMPLE.com", "other.org", "AB.example.com", "a1.example.com", "">>,
              ip |-> <<"10.1.0.0", "10.2.3.4", "10.1.255.255", "9.255.255.255", "11.0.0.0", "::1", "">>,
              method |-> <<"GET", "POST", "PUT", "">>,
              hdrs |-> << <<>>, <<HL("x-k", "v")>>, <<HL("X-K", "V")>>, <<HL("X-K", "xvx")>>, <<HL("X-K", "vx")>>, <<HL("X-K", "xv")>>,
                          <<HL("X-K", "w")>>, <<HL("X-K", "w"), HL("x-k", "v")>>, <<HL("X-J", "v")>>, <<HL("X-K", "v"), HL("X-J", "v")>>,
                          <<HL("X-K", "k-ab")>>, <<HL("x-k", "K-AB")>>, <<HL("X-K", "xk-ab9")>>, <<HL("X-K", "K-ab")>> >>,
              at |-> <<"2024-03-10T12:30:00Z", "2024-03-10T11:59:59.750Z", "2024-03-10T12:00:00Z", "2024-03-10T12:59:59.750Z", "2024-03-10T13:00:00Z",
                       "2024-03-10T23:59:59.750Z", "2024-03-11T00:00:00Z", "2024-03-11T12:30:00Z", "2024-03-12T12:30:00Z", "">>,
              path |-> <<"/a", "/x/ab", "/b", "/A", "/x/AB", "/x/ab/y", "/x/", "/X/ab", "/X/ab/y", "/X/y/ab", "/x/y/ab">> ]

PoolSeq == SetToSeq(Pool)
Idx(r) == CHOOSE i \in 1..Len(PoolSeq) : PoolSeq[i] = r
IdxSet(S) == {Idx(r) : r \in S}
HdrIdx(h) == CHOOSE i \in 1..Len(Universe.hdrs) : Universe.hdrs[i] = h
RulesIn(hs) == UNION {hs[i].rules \cup hs[i].upd : i \in 1..Len(hs)}
Compact(q) == <<q.scheme, q.host, q.ip, q.method, HdrIdx(q.hdrs), q.at, q.path>>
OpJson(o) == [op |-> o.op, h |-> o.h, rules |-> IdxSet(o.rules), ids |-> o.ids, upd |-> IdxSet(o.upd),
              after |-> <<IdxSet(o.after[1]), IdxSet(o.after[2])>>, forked |-> o.forked]
Emit == nops = MaxOps =>
          PrintT(<<"REPLAY", ToJson([cfg |-> cfg, ops |-> [i \in 1..Len(hist) |-> OpJson(hist[i])],
                                     probes |-> SetToSeq({Compact(q) : q \in Probes(cfg, RulesIn(hist))})])>>)
EmitOwn == nops = MaxOps =>
          PrintT(<<"REPLAY", ToJson([cfg |-> cfg, ops |-> [i \in 1..Len(hist) |-> OpJson(hist[i])],
                                     probes |-> SetToSeq({Compact(q) : q \in ProbesOwn(cfg, RulesIn(hist))})])>>)
\* analyses (C19): histories that end in a fork (existing router + change-set)
EmitFork == (nops = MaxOps /\ hist # <<>> /\ hist[Len(hist)].op = "fork") =>
          PrintT(<<"REPLAY", ToJson([cfg |-> cfg, ops |-> [i \in 1..Len(hist) |-> OpJson(hist[i])],
                                     probes |-> SetToSeq({Compact(q) : q \in ProbesOwn(cfg, RulesIn(hist))})])>>)
\* nothing happens after the fork in those histories
ForkLast == forked => hist[Len(hist)].op = "fork"
UniverseBlob == PrintT(<<"UNIVERSE", ToJson([pool |-> PoolSeq, hdrs |-> Universe.hdrs])>>)
ASSUME UniverseBlob
=============================================================================
