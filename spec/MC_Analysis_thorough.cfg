SPECIFICATION Spec
CONSTANTS
  Project = {"/a", "/b", "/c"}
  External = {"http://other.org/x", "mailto:x@y.z"}
  Codes = {200, 301, 302, 307, 308}
  MaxHopsSet = {0, 1, 2, 3, 4}
  Methods = {"GET", "POST"}
INVARIANTS HopBound LoopIffRepeat ChainFollowsGraph StopReason Emit
CHECK_DEADLOCK FALSE
