SPECIFICATION SpecInputs
CONSTANTS
  Inputs <- InputsDef
  MaxLen = 4
  AlphaName = "frag"
INVARIANTS Emit
CHECK_DEADLOCK FALSE
