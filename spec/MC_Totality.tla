----------------------------- MODULE MC_Totality -----------------------------
EXTENDS Totality, Json
Emit == state = "called" => PrintT(<<"REPLAY", ToJson(last)>>)
=============================================================================
