SPECIFICATION Spec
CONSTANTS
  Pool <- PoolQuick
  Cfgs <- CfgsQuick
  OpKinds = {"insert"}
  MaxOps = 2
  MaxRules = 2
  ReqUniverse <- Universe
VIEW View
INVARIANTS NoMissNoSpurious IncrementalEqualsRebuild UniqueIds Emit
PROPERTY Isolation
CHECK_DEADLOCK FALSE
