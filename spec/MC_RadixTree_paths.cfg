SPECIFICATION Spec
CONSTANTS
  Patterns <- PCase
  Ids = {"i1", "i2", "i3"}
  Haystacks <- ProbesCase
  KeepSets = {{"i1"}}
  Limits = {1}
  Levels = {99}
  IgnoreCase = {TRUE}
  MaxOps = 4
VIEW ViewKinds
INVARIANTS FindCorrect LenCorrect GetCorrect TreeInv RemoveReturnsValue CacheTransparent CacheBudget Emit
CHECK_DEADLOCK FALSE
