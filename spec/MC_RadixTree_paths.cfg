\* NO VIEW: every history is a state of its own, so every PATH to an abstract state is replayed (hidden implementation
\* state may depend on how a state was reached: emptied by retain vs by remove, root a leaf vs a node, ...)
SPECIFICATION Spec
CONSTANTS
  Patterns <- PCase
  Ids = {"i1", "i2"}
  Haystacks <- ProbesCase
  KeepSets = {{"i1"}, {"i9"}}
  Limits = {1}
  Levels = {99}
  IgnoreCase = {TRUE}
  MaxOps = 4
INVARIANTS FindCorrect LenCorrect GetCorrect TreeInv RemoveReturnsValue CacheTransparent CacheBudget Emit
CHECK_DEADLOCK FALSE
