SPECIFICATION Spec
CONSTANTS
  Pool <- PoolDq
  MaxRules = 3
  Codes = {0, 200, 404, 500}
  Overrides = {"none"}
  Scripts <- ScriptsOne
INVARIANTS FoldMeetsReference AppliedMeetsReference OrderIsTotal OnlyWindowRules Emit
CHECK_DEADLOCK FALSE
