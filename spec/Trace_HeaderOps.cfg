SPECIFICATION TraceSpec
CONSTANTS
  Names = {"x-a", "X-A", "x-b"}
  HValues = {"1", ""}
  FValues = {"2", ""}
  Ops = {"add", "remove", "replace", "override", "default", "bogus"}
  MaxH = 3
  MaxF = 3
POSTCONDITION Accepted
CHECK_DEADLOCK FALSE
