SPECIFICATION Spec
CONSTANTS
  Pool <- PoolQuick
  Cfgs <- CfgsTwo
  OpKinds = {"insert"}
  MaxOps = 3
  MaxRules = 3
  ReqUniverse <- Universe
VIEW View
INVARIANTS NoMissNoSpurious IncrementalEqualsRebuild UniqueIds Emit
PROPERTY Isolation
CHECK_DEADLOCK FALSE
