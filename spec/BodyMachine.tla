----------------------------- MODULE BodyMachine -----------------------------
(* State machine: choose a (document, filter list) case, feed it in chunks of any sizes
   (including empty chunks), end the stream.  TLC explores every schedule within MaxChunks. *)
EXTENDS BodyFilter, RefEdit

CONSTANTS Cases,       \* set of [doc, fs]
          MaxChunks

VARIABLES cs, fed, sched, stages, out, done, dev
vars == <<cs, fed, sched, stages, out, done, dev>>

Total == Len(AllUnits(cs.doc))

Init == /\ cs \in Cases /\ fed = 0 /\ sched = <<>>
        /\ stages = InitStages(cs.fs) /\ out = <<>> /\ done = FALSE /\ dev = {}

Feed(n) ==
  /\ ~done /\ Len(sched) < MaxChunks
  /\ fed + n <= Total
  /\ (Len(sched) = MaxChunks - 1 => fed + n = Total)
  /\ LET r == ChainFilter(cs.doc, stages, 1, SubSeq(AllUnits(cs.doc), fed + 1, fed + n), {}) IN
       /\ stages' = r.sts
       /\ out' = out \o r.em
       /\ dev' = dev \cup (IF fed + n < Total THEN r.dev ELSE {})
  /\ fed' = fed + n /\ sched' = Append(sched, n)
  /\ UNCHANGED <<cs, done>>

End ==
  /\ ~done /\ fed = Total
  /\ out' = out \o ChainEnd(cs.doc, stages, 1, <<>>)
  /\ done' = TRUE
  /\ UNCHANGED <<cs, fed, sched, stages, dev>>

Next == (\E n \in 0..Total : Feed(n)) \/ End
Spec == Init /\ [][Next]_vars

-----------------------------------------------------------------------------
Whole == RunWhole(cs.doc, cs.fs)
\* C03: chunking is invisible, except through the named deviation classes
ChunkInvariant == (done /\ dev = {}) => out = Whole
\* the step-by-step machine and the recursive definition agree (sanity of RunChunked)
RunChunkedAgrees == done => RunChunked(cs.doc, cs.fs, sched).out = out
\* C04: insert-only filters neither lose, duplicate nor reorder a unit
\*      (EndOrder: end() emits last_buffer before the element buffers; harmless only when one of them is empty)
Conservation == (done /\ InsertOnly(cs.fs)) => Strip(out) = AllUnits(cs.doc)
\* C04: with no HTML stage whose path starts in the document and no text stage, the body passes through
Inert == \A k \in 1..Len(cs.fs) : IsHtml(cs.fs[k]) /\ ~\E i \in 1..Len(cs.doc) : cs.doc[i].k \in {"stag", "sc"} /\ cs.doc[i].n = cs.fs[k].path[1]
PassThroughWhenInert == (done /\ Inert) => out = AllUnits(cs.doc)
\* C15: on the domain of the property the single-chunk result is the declarative edit
EditCorrect == InDomain(cs.doc, cs.fs) => Whole = RefOut(cs.doc, cs.fs)
=============================================================================
