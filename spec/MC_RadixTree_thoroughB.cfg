SPECIFICATION Spec
CONSTANTS
  Patterns <- PQCls
  Ids = {"i1", "i2", "i3"}
  Haystacks <- ProbeSet
  KeepSets = {{"i2", "i3"}}
  Limits = {2}
  Levels = {99}
  IgnoreCase = {TRUE}
  MaxOps = 4
VIEW View
INVARIANTS FindCorrect LenCorrect GetCorrect TreeInv RemoveReturnsValue CacheTransparent CacheBudget Emit
CHECK_DEADLOCK FALSE
