SPECIFICATION Spec
CONSTANTS
  Mode = "vars"
INVARIANTS ChainsClosed Emit
CHECK_DEADLOCK FALSE
