SPECIFICATION SpecCases
CONSTANTS
  Cases <- CasesReplayT
  MaxChunks = 1
INVARIANTS Emit
CHECK_DEADLOCK FALSE
