------------------------------- MODULE Action -------------------------------
(* How libredirectionio turns the rules matched by a request into an action and how the
   action answers the proxy's queries (src/action/mod.rs, status_code_update.rs,
   log_override.rs).

   Layer I (code shaped): FromRule / Merge / FoldI mirror Action::from_route_rule, merge and
            from_routes_rule (sort, skip sampled-out rules, reset = replace, stop = return,
            ONE fallback slot for the status and for the log override); StatusI, HeadersI,
            BodyI, LogI mirror get_status_code, filter_headers, create_filter_body and
            should_log_request, including the way each of them adds to rules_applied.
   Layer P (properties C05, C11, C06): Eff(R) is the window of rules that can contribute
            (from the last reset at or before the first stop, through that stop, in priority
            order); RefStatus / RefHeaders / RefBody / RefLog / RefApplied say what each
            query must answer, purely in terms of the matched SET of rules.

   Rules are records
     [id, n, rank, sc, codes, ex, hf, tgt, bf, log, reset, stop, samp]
   id     rule id (string), n its order number (ids compare like n; TLC cannot compare strings)
   rank   the rule's rank; larger rank = applied earlier = lower priority
   sc     status code the rule sets (0 = none)
   codes  response_status_codes (set), ex = exclude_response_status_codes is present
   hf     sequence of header filters [op, name, value]; tgt redirect target ("" = none)
   bf     sequence of text-append body filter contents
   log    "none" | "on" | "off";  samp  "none" | "0" | "100"                          *)
EXTENDS HeaderOps

NoId == ""

\* ---- ordering: impl Ord for Rule = rank descending, then id descending -----------------
Before(a, b) == a.rank > b.rank \/ (a.rank = b.rank /\ a.n > b.n)
Sorted(S) == CHOOSE s \in [1..Cardinality(S) -> S] :
               \A i, j \in 1..Cardinality(S) : i < j => Before(s[i], s[j])

\* ---- sampling: (override, rate) -> skipped ------------------------------------------
\* from_route_rule: random in 1..100; rate 0 => always "above", rate 100 => never
Skipped(r, ov) == CASE r.samp = "none" -> FALSE
                    [] r.samp = "0"    -> ov # "true"
                    [] r.samp = "100"  -> ov = "false"

Guard(codes, ex, c) == codes = {} \/ (IF ex THEN c \notin codes ELSE c \in codes)

-----------------------------------------------------------------------------
(* Layer I *)
LocationFilter(r) == IF r.tgt = "" THEN <<>> ELSE <<Flt("override", "Location", r.tgt)>>

FromRule(r) ==
  [ scu |-> IF r.sc = 0 THEN <<>>
            ELSE <<[code |-> r.sc, codes |-> r.codes, ex |-> r.ex, fb |-> 0, rid |-> r.id, fbrid |-> NoId]>>,
    hfs |-> LET all == LocationFilter(r) \o r.hf IN
            [i \in 1..Len(all) |-> [f |-> all[i], codes |-> r.codes, ex |-> r.ex, rid |-> r.id]],
    bfs |-> [i \in 1..Len(r.bf) |-> [content |-> r.bf[i], codes |-> r.codes, ex |-> r.ex, rid |-> r.id]],
    traces |-> <<[id |-> r.id, codes |-> r.codes, ex |-> r.ex]>>,
    log |-> IF r.log = "none" THEN <<>>
            ELSE <<[v |-> r.log, rid |-> r.id, codes |-> r.codes, ex |-> r.ex, fb |-> "none", fbrid |-> NoId]>> ]

EmptyAction == [scu |-> <<>>, hfs |-> <<>>, bfs |-> <<>>, traces |-> <<>>, log |-> <<>>]

Merge(a, o) ==
  [ scu |-> IF o.scu = <<>> THEN a.scu
            ELSE IF a.scu = <<>> THEN o.scu
            ELSE IF a.scu[1].codes # {} \/ o.scu[1].codes = {} THEN o.scu
            ELSE <<[o.scu[1] EXCEPT !.fb = a.scu[1].code, !.fbrid = a.scu[1].rid]>>,
    hfs |-> a.hfs \o o.hfs,
    bfs |-> a.bfs \o o.bfs,
    traces |-> a.traces \o o.traces,
    log |-> IF o.log = <<>> THEN a.log
            ELSE IF a.log = <<>> THEN o.log
            ELSE IF a.log[1].codes # {} \/ o.log[1].codes = {} THEN o.log
            ELSE <<[o.log[1] EXCEPT !.fb = a.log[1].v, !.fbrid = a.log[1].rid]>> ]

RECURSIVE FoldLoop(_,_,_,_)
FoldLoop(s, i, acc, ov) ==
  IF i > Len(s) THEN acc
  ELSE LET r == s[i] IN
       IF Skipped(r, ov) THEN FoldLoop(s, i + 1, acc, ov)
       ELSE LET a1 == IF r.reset THEN FromRule(r) ELSE Merge(acc, FromRule(r)) IN
            IF r.stop THEN a1 ELSE FoldLoop(s, i + 1, a1, ov)
ActionFoldI(R, ov) == FoldLoop(Sorted(R), 1, EmptyAction, ov)

\* get_status_code -> <<status, rule id added to rules_applied>>
StatusI(a, c) ==
  IF a.scu = <<>> THEN <<0, NoId>>
  ELSE LET u == a.scu[1] IN
       IF c = 0 /\ u.codes = {} THEN <<u.code, u.rid>>
       ELSE IF u.ex /\ c \notin u.codes THEN <<u.code, u.rid>>
       ELSE IF ~u.ex /\ c \in u.codes THEN <<u.code, u.rid>>
       ELSE IF c # 0 THEN <<u.fb, u.fbrid>> ELSE <<0, NoId>>

Admitted(s, c) == SelectSeq(s, LAMBDA x : Guard(x.codes, x.ex, c))
\* filter_headers -> [filters, applied]
HeadersI(a, c) ==
  [ filters |-> [i \in 1..Len(Admitted(a.hfs, c)) |-> Admitted(a.hfs, c)[i].f],
    applied |-> {t.id : t \in ToSet(Admitted(a.traces, c))} \cup {x.rid : x \in ToSet(Admitted(a.hfs, c))} ]
BodyI(a, c) ==
  [ contents |-> [i \in 1..Len(Admitted(a.bfs, c)) |-> Admitted(a.bfs, c)[i].content],
    applied |-> {x.rid : x \in ToSet(Admitted(a.bfs, c))} ]
\* should_log_request -> <<"on"/"off"/"dflt", rule id>>
LogI(a, c) ==
  IF a.log = <<>> THEN <<"dflt", NoId>>
  ELSE LET lo == a.log[1] IN
       IF Guard(lo.codes, lo.ex, c) THEN <<lo.v, lo.rid>>
       ELSE <<IF lo.fb = "none" THEN "dflt" ELSE lo.fb, lo.fbrid>>

-----------------------------------------------------------------------------
(* Layer P *)
Active(R, ov) == SelectSeq(Sorted(R), LAMBDA r : ~Skipped(r, ov))
FirstStop(s) == IF \E i \in 1..Len(s) : s[i].stop
                THEN CHOOSE i \in 1..Len(s) : s[i].stop /\ \A j \in 1..(i - 1) : ~s[j].stop
                ELSE Len(s)
LastReset(s, e) == IF \E i \in 1..e : s[i].reset
                   THEN CHOOSE i \in 1..e : s[i].reset /\ \A j \in (i + 1)..e : ~s[j].reset
                   ELSE 1
\* the rules that can contribute, lowest priority first
Eff(R, ov) == LET s == Active(R, ov) e == FirstStop(s) IN
              IF Len(s) = 0 THEN <<>> ELSE SubSeq(s, LastReset(s, e), e)

\* a status-carrying rule decides for code c
AdmitStatus(x, c) == IF x.codes = {} THEN (x.ex \/ c = 0) ELSE IF x.ex THEN c \notin x.codes ELSE c \in x.codes
RefStatus(R, ov, c) ==
  LET S == SelectSeq(Eff(R, ov), LAMBDA r : r.sc # 0) n == Len(S) IN
  IF n = 0 THEN <<0, NoId>>
  ELSE IF AdmitStatus(S[n], c) THEN <<S[n].sc, S[n].id>>
  ELSE IF c # 0 /\ n >= 2 /\ S[n].codes # {} /\ S[n - 1].codes = {} THEN <<S[n - 1].sc, S[n - 1].id>>
  ELSE <<0, NoId>>
RefLog(R, ov, c) ==
  LET S == SelectSeq(Eff(R, ov), LAMBDA r : r.log # "none") n == Len(S) IN
  IF n = 0 THEN <<"dflt", NoId>>
  ELSE IF Guard(S[n].codes, S[n].ex, c) THEN <<S[n].log, S[n].id>>
  ELSE IF n >= 2 /\ S[n].codes # {} /\ S[n - 1].codes = {} THEN <<S[n - 1].log, S[n - 1].id>>
  ELSE <<"dflt", NoId>>
EffAdmitted(R, ov, c) == SelectSeq(Eff(R, ov), LAMBDA r : Guard(r.codes, r.ex, c))
RECURSIVE FlatHf(_,_)
FlatHf(s, i) == IF i > Len(s) THEN <<>> ELSE LocationFilter(s[i]) \o s[i].hf \o FlatHf(s, i + 1)
RECURSIVE FlatBf(_,_)
FlatBf(s, i) == IF i > Len(s) THEN <<>> ELSE s[i].bf \o FlatBf(s, i + 1)
RefHeaders(R, ov, c) == FlatHf(EffAdmitted(R, ov, c), 1)
RefBody(R, ov, c) == FlatBf(EffAdmitted(R, ov, c), 1)

\* what one query may add to the applied-rule list
RefAppliedBy(R, ov, q) ==
  CASE q.k = "status"  -> {RefStatus(R, ov, q.c)[2]} \ {NoId}
    [] q.k = "headers" -> {r.id : r \in ToSet(EffAdmitted(R, ov, q.c))}
    [] q.k = "body"    -> {r.id : r \in {x \in ToSet(EffAdmitted(R, ov, q.c)) : x.bf # <<>>}}
    [] q.k = "log"     -> {RefLog(R, ov, q.c)[2]} \ {NoId}
    [] OTHER           -> {}
RECURSIVE RefApplied(_,_,_,_)
RefApplied(R, ov, qs, n) == IF n = 0 THEN {} ELSE RefApplied(R, ov, qs, n - 1) \cup RefAppliedBy(R, ov, qs[n])

\* every effect is attributable to a rule of the window whose condition admits the code
Attributable(R, ov, c) ==
  LET ids == {r.id : r \in ToSet(EffAdmitted(R, ov, c))}
      st == RefStatus(R, ov, c) IN
  /\ (st[2] # NoId => \E r \in ToSet(Eff(R, ov)) : r.id = st[2] /\ r.sc = st[1])
  /\ RefAppliedBy(R, ov, [k |-> "headers", c |-> c]) \subseteq ids
  /\ RefAppliedBy(R, ov, [k |-> "body", c |-> c]) \subseteq ids

-----------------------------------------------------------------------------
(* State machine *)
CONSTANTS Pool,        \* rule records that may be matched
          MaxRules,
          Codes,       \* response codes probed in the state invariants
          Overrides,   \* sampling overrides of the request: subset of {"none","true","false"}
          Scripts      \* query sequences the proxy may issue

VARIABLES rules,     \* matched rule set
          ov,        \* the request's sampling override
          phase,     \* "build" -> "folded"
          act,       \* the action (layer I)
          script, pc,
          applied,   \* rules_applied (as a set)
          last       \* answer to the last query (layer I)
vars == <<rules, ov, phase, act, script, pc, applied, last>>

Init == /\ rules = {} /\ ov \in Overrides /\ phase = "build" /\ act = EmptyAction
        /\ script = <<>> /\ pc = 1 /\ applied = {} /\ last = <<>>

\* rules are added in increasing id order so that every set is built once
AddRule(r) ==
  /\ phase = "build" /\ Cardinality(rules) < MaxRules
  /\ \A x \in rules : x.n < r.n
  /\ rules' = rules \cup {r}
  /\ UNCHANGED <<ov, phase, act, script, pc, applied, last>>

\* Action::from_routes_rule on the matched rules (delivered in any order)
Fold(s) ==
  /\ phase = "build" /\ rules # {}
  /\ phase' = "folded" /\ act' = ActionFoldI(rules, ov) /\ script' = s
  /\ UNCHANGED <<rules, ov, pc, applied, last>>

Cur == script[pc]
Asking(k) == phase = "folded" /\ pc <= Len(script) /\ Cur.k = k
QStatus == /\ Asking("status")
           /\ LET r == StatusI(act, Cur.c) IN
              /\ last' = <<r[1]>> /\ applied' = applied \cup ({r[2]} \ {NoId})
           /\ pc' = pc + 1 /\ UNCHANGED <<rules, ov, phase, act, script>>
QHeaders == /\ Asking("headers")
            /\ LET r == HeadersI(act, Cur.c) IN
               /\ last' = r.filters /\ applied' = applied \cup r.applied
            /\ pc' = pc + 1 /\ UNCHANGED <<rules, ov, phase, act, script>>
QBody == /\ Asking("body")
         /\ LET r == BodyI(act, Cur.c) IN
            /\ last' = r.contents /\ applied' = applied \cup r.applied
         /\ pc' = pc + 1 /\ UNCHANGED <<rules, ov, phase, act, script>>
QLog == /\ Asking("log")
        /\ LET r == LogI(act, Cur.c) IN
           /\ last' = <<r[1]>> /\ applied' = applied \cup ({r[2]} \ {NoId})
        /\ pc' = pc + 1 /\ UNCHANGED <<rules, ov, phase, act, script>>
\* agent -> proxy hand-off: serialising and deserialising the action changes nothing
Handoff == /\ Asking("handoff")
           /\ pc' = pc + 1 /\ UNCHANGED <<rules, ov, phase, act, script, applied, last>>

Done == phase = "folded" /\ pc > Len(script)

Next == \/ \E r \in Pool : AddRule(r)
        \/ \E s \in Scripts : Fold(s)
        \/ QStatus \/ QHeaders \/ QBody \/ QLog \/ Handoff
Spec == Init /\ [][Next]_vars

-----------------------------------------------------------------------------
(* Invariants: I => P *)
FoldMeetsReference ==
  phase = "folded" =>
    \A c \in Codes :
      /\ StatusI(act, c) = RefStatus(rules, ov, c)
      /\ HeadersI(act, c).filters = RefHeaders(rules, ov, c)
      /\ BodyI(act, c).contents = RefBody(rules, ov, c)
      /\ LogI(act, c) = RefLog(rules, ov, c)
      /\ Attributable(rules, ov, c)
AppliedMeetsReference == phase = "folded" => applied = RefApplied(rules, ov, script, pc - 1)
\* C11 at design level: the action is a function of the matched set (Sorted is a total order)
OrderIsTotal == \A a, b \in rules : a = b \/ Before(a, b) \/ Before(b, a)
\* only rules of the window are ever named in the action
OnlyWindowRules ==
  phase = "folded" =>
    LET ids == {r.id : r \in ToSet(Eff(rules, ov))} IN
    /\ \A i \in 1..Len(act.hfs) : act.hfs[i].rid \in ids
    /\ \A i \in 1..Len(act.bfs) : act.bfs[i].rid \in ids
    /\ (act.scu # <<>> => act.scu[1].rid \in ids /\ (act.scu[1].fbrid = NoId \/ act.scu[1].fbrid \in ids))
    /\ (act.log # <<>> => act.log[1].rid \in ids /\ (act.log[1].fbrid = NoId \/ act.log[1].fbrid \in ids))
=============================================================================
