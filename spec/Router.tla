------------------------------- MODULE Router -------------------------------
(* Rule matching of libredirectionio (directory src/router): seven nested matchers
       scheme -> host -> ip -> method -> headers -> date/time -> path
   each of which files a rule under one or several buckets and, for a request, walks the
   buckets the request belongs to.

   Layer P (properties C01, C02, C17): Sat(R, r, q, cfg) -- the conjunction of the per-trigger
            predicates plus the any-host policy -- is the meaning of "rule r matches request q".
   Layer I (code shaped): every rule is filed under a set of BUCKET PATHS (Keys); a request
            walks a set of bucket paths (Walk) per scheme scope and host bucket; the answer is
            the set of ids found (the IP layer de-duplicates by id); the any-host bucket is
            walked when always_match_any_host or when the host-specific walk found nothing.

   All atoms are concrete strings (they are sent to the real library as they are); the small
   tables below (Lower, InNet, Contains, ...) give their meaning.                            *)
EXTENDS Naturals, Sequences, FiniteSets, TLC, SequencesExt

\* ---- atoms and their meaning ---------------------------------------------------------------
Lower(s) == CASE s = "EXAMPLE.com" -> "example.com" [] s = "Example.COM" -> "example.com"
              [] s = "AB.example.com" -> "ab.example.com"
              [] s = "V" -> "v" [] s = "xVx" -> "xvx"
              [] s = "/X/y/ab" -> "/x/y/ab" [] s = "/A" -> "/a" [] s = "/X/AB" -> "/x/ab" [] s = "/x/AB" -> "/x/ab" [] s = "/X/ab" -> "/x/ab" [] s = "/X/ab/y" -> "/x/ab/y"
              [] s = "X-K" -> "x-k" [] s = "X-J" -> "x-j"
              [] s = "K-AB" -> "k-ab" [] s = "K-ab" -> "k-ab" [] s = "K-@m" -> "k-@m"
              [] OTHER -> s

\* dynamic host "@sub.example.com", sub = [a-z]+ (anchored)
DynHostMatches(ic, h) == IF ic THEN Lower(h) \in {"ab.example.com", "a.example.com"} ELSE h \in {"ab.example.com", "a.example.com"}
\* dynamic paths "/x/@m" and "/x/@m/y", m = [a-z]+ (anchored)
DynPathMatches(ic, pat, p) ==
  LET x == IF ic THEN Lower(p) ELSE p IN
  CASE pat = "/x/@m"   -> x \in {"/x/ab", "/x/a"}
    [] pat = "/x/@m/y" -> x \in {"/x/ab/y"}
    \* upper-case literal in the pattern: without the flag only the exact spelling matches
    \* ("/X/@n" is the same expression with the marker under another name: only captures differ)
    [] pat \in {"/X/@m", "/X/@n"} -> IF ic THEN x \in {"/x/ab", "/x/a"} ELSE p \in {"/X/ab"}
    [] pat = "/X/@m/y" -> IF ic THEN x \in {"/x/ab/y"} ELSE p \in {"/X/ab/y"}
    \* a sibling of "/X/@m" that leaves a purely literal tree node "/X/" (no expression in the node prefix)
    [] pat = "/X/y/@m" -> IF ic THEN x \in {"/x/y/ab"} ELSE p \in {"/X/y/ab"}
    [] OTHER -> FALSE

\* networks and addresses
InNet(ip, net) == CASE net = "10.0.0.0/8"  -> ip \in {"10.0.0.0", "10.1.0.0", "10.1.255.255", "10.2.3.4", "10.255.255.255"}
                    [] net = "10.1.0.0/16" -> ip \in {"10.1.0.0", "10.1.255.255"}
                    [] net = "::/0"        -> ip \in {"::1"}
                    [] OTHER -> FALSE

\* header values: literal relations on the value universe
ValContains(v, lit) == CASE lit = "v" -> v \in {"v", "xvx", "vx", "xv"} [] lit = "V" -> v \in {"V", "xVx"} [] OTHER -> v = lit
StartsWith(v, lit) == CASE lit = "v" -> v \in {"v", "vx"} [] lit = "V" -> v \in {"V"} [] OTHER -> v = lit
EndsWith(v, lit) == CASE lit = "v" -> v \in {"v", "xv"} [] lit = "V" -> v \in {"V"} [] OTHER -> v = lit
\* header templates "k-@m" / "K-@m", m = [a-z]+, matched as a SEARCH in the value; under
\* ignore_header_case the comparison is case-insensitive like every other header condition
TemplateFound(ic, tpl, v) ==
  IF ic THEN Lower(v) \in {"k-ab", "xk-ab9"}
  ELSE IF tpl = "k-@m" THEN v \in {"k-ab", "xk-ab9"} ELSE v \in {"K-ab"}

\* instants: [t |-> order number, tod |-> whole seconds of day, wd |-> weekday]; "" = request has no date; the instants
\* just before a boundary carry a sub-second part (a JSON hand-off must not round them across the boundary)
Instant(a) == CASE a = "2024-03-10T11:59:59.750Z" -> [t |-> 1, tod |-> 43199, wd |-> "Sun"]
                [] a = "2024-03-10T12:00:00Z" -> [t |-> 2, tod |-> 43200, wd |-> "Sun"]
                [] a = "2024-03-10T12:30:00Z" -> [t |-> 3, tod |-> 45000, wd |-> "Sun"]
                [] a = "2024-03-10T12:59:59.750Z" -> [t |-> 4, tod |-> 46799, wd |-> "Sun"]
                [] a = "2024-03-10T13:00:00Z" -> [t |-> 5, tod |-> 46800, wd |-> "Sun"]
                [] a = "2024-03-10T23:59:59.750Z" -> [t |-> 6, tod |-> 86399, wd |-> "Sun"]
                [] a = "2024-03-11T00:00:00Z" -> [t |-> 7, tod |-> 0, wd |-> "Mon"]
                [] a = "2024-03-11T12:30:00Z" -> [t |-> 8, tod |-> 45000, wd |-> "Mon"]
                [] a = "2024-03-12T12:30:00Z" -> [t |-> 9, tod |-> 45000, wd |-> "Tue"]
                \* the bounds of W1 written with a UTC offset (the same instants as 12:00:00Z and 13:00:00Z)
                [] a = "2024-03-10T14:00:00+02:00" -> [t |-> 2, tod |-> 43200, wd |-> "Sun"]
                [] a = "2024-03-10T08:00:00-05:00" -> [t |-> 5, tod |-> 46800, wd |-> "Sun"]
TimeOfDay(s) == CASE s = "12:00:00" -> 43200 [] s = "13:00:00" -> 46800 [] s = "00:00:00" -> 0 [] s = "23:59:59" -> 86399
\* half-open windows; "" = open end
InDateWindow(i, w) == (w[1] = "" \/ Instant(w[1]).t <= i.t) /\ (w[2] = "" \/ i.t < Instant(w[2]).t)
InTimeWindow(i, w) == (w[1] = "" \/ TimeOfDay(w[1]) <= i.tod) /\ (w[2] = "" \/ i.tod < TimeOfDay(w[2]))

\* ---- rules, requests, configuration ---------------------------------------------------------
\* rule:    [id, scheme, host = <<kind, value>>, ips = Seq(<<"in"|"not_in", net>>), methods = Seq(string),
\*           excl, hdrs = Seq([name, kind, value]), dates = Seq(<<start, end>>), times = Seq(<<s, e>>),
\*           wds = Seq(weekday), path = <<kind, value>>]     kind in {"none","static","dyn"}
\* request: [scheme, host, ip, method, hdrs = Seq([name, value]), at, path]      "" = absent
\* cfg:     [ihc, ihdr, ipc, always]   (ignore host / header / path case, always match any host)

SchemeSat(r, q) == r.scheme = "" \/ r.scheme = q.scheme
HostSpecific(r) == r.host[1] # "none"
HostSat(cfg, r, q) ==
  CASE r.host[1] = "none"   -> TRUE
    [] r.host[1] = "static" -> q.host # "" /\ (IF cfg.ihc THEN Lower(r.host[2]) = Lower(q.host) ELSE r.host[2] = q.host)
    [] r.host[1] = "dyn"    -> q.host # "" /\ DynHostMatches(cfg.ihc, q.host)
IpSat(c, ip) == IF c[1] = "in" THEN InNet(ip, c[2]) ELSE ~InNet(ip, c[2])
IpsSat(r, q) == r.ips = <<>> \/ (q.ip # "" /\ \E i \in 1..Len(r.ips) : IpSat(r.ips[i], q.ip))
Method(q) == IF q.method = "" THEN "GET" ELSE q.method
MethodSat(r, q) == r.methods = <<>> \/ (IF r.excl THEN Method(q) \notin ToSet(r.methods) ELSE Method(q) \in ToSet(r.methods))

Values(q, name) == {q.hdrs[i].value : i \in {j \in 1..Len(q.hdrs) : Lower(q.hdrs[j].name) = Lower(name)}}
Fold(cfg, v) == IF cfg.ihdr THEN Lower(v) ELSE v
HeaderSat(cfg, h, q) ==
  LET vs == {Fold(cfg, v) : v \in Values(q, h.name)}
      lit == Fold(cfg, h.value) IN
  CASE h.kind = "is_defined"       -> vs # {}
    [] h.kind = "is_not_defined"   -> vs = {}
    [] h.kind = "is_equals"        -> \E v \in vs : v = lit
    [] h.kind = "is_not_equal_to"  -> \A v \in vs : v # lit
    [] h.kind = "contains"         -> \E v \in vs : ValContains(v, lit)
    [] h.kind = "does_not_contain" -> \A v \in vs : ~ValContains(v, lit)
    [] h.kind = "starts_with"      -> \E v \in vs : StartsWith(v, lit)
    [] h.kind = "ends_with"        -> \E v \in vs : EndsWith(v, lit)
    [] h.kind = "match_regex"      -> \E v \in Values(q, h.name) : TemplateFound(cfg.ihdr, h.value, v)
HeadersSat(cfg, r, q) == \A i \in 1..Len(r.hdrs) : HeaderSat(cfg, r.hdrs[i], q)

DateSat(r, q) ==
  /\ (r.dates # <<>> => q.at # "" /\ \E i \in 1..Len(r.dates) : InDateWindow(Instant(q.at), r.dates[i]))
  /\ (r.times # <<>> => q.at # "" /\ \E i \in 1..Len(r.times) : InTimeWindow(Instant(q.at), r.times[i]))
  /\ (r.wds # <<>> => q.at # "" /\ Instant(q.at).wd \in ToSet(r.wds))
PathSat(cfg, r, q) ==
  IF r.path[1] = "static" THEN (IF cfg.ipc THEN Lower(r.path[2]) = Lower(q.path) ELSE r.path[2] = q.path)
  ELSE DynPathMatches(cfg.ipc, r.path[2], q.path)

\* every trigger of r is satisfied by q
FullySat(cfg, r, q) == /\ SchemeSat(r, q) /\ HostSat(cfg, r, q) /\ IpsSat(r, q) /\ MethodSat(r, q)
                       /\ HeadersSat(cfg, r, q) /\ DateSat(r, q) /\ PathSat(cfg, r, q)
\* layer P: r is reported for q by a router holding the rule set R
Sat(cfg, R, r, q) ==
  /\ FullySat(cfg, r, q)
  /\ (HostSpecific(r) \/ cfg.always
      \/ ~\E s \in R : HostSpecific(s) /\ s.scheme = r.scheme /\ FullySat(cfg, s, q))
MatchP(cfg, R, q) == {r.id : r \in {x \in R : Sat(cfg, R, x, q)}}

\* ---- layer I: bucket paths ------------------------------------------------------------------
AnyKey == <<"*">>
HostKey(cfg, r) == CASE r.host[1] = "none" -> AnyKey
                     [] r.host[1] = "static" -> <<"static", IF cfg.ihc THEN Lower(r.host[2]) ELSE r.host[2]>>
                     [] r.host[1] = "dyn" -> <<"dyn", r.host[2]>>
MethodKeys(r) == IF r.methods = <<>> THEN {AnyKey}
                 ELSE IF r.excl THEN {<<"excl", r.methods>>}
                 ELSE {<<"m", r.methods[i]>> : i \in 1..Len(r.methods)}
IpKeys(r) == IF r.ips = <<>> THEN {AnyKey} ELSE {<<r.ips[i][1], r.ips[i][2]>> : i \in 1..Len(r.ips)}
\* the header group is keyed by the set of (lower-cased name, condition) pairs
HdrKey(cfg, r) == IF r.hdrs = <<>> THEN AnyKey
                  ELSE <<"group", {<<Lower(r.hdrs[i].name), r.hdrs[i].kind, Fold(cfg, r.hdrs[i].value)>> : i \in 1..Len(r.hdrs)}>>
DateKey(r) == IF r.dates = <<>> /\ r.times = <<>> /\ r.wds = <<>> THEN AnyKey ELSE <<"group", r.dates, r.times, r.wds>>
PathKey(cfg, r) == IF r.path[1] = "static" THEN <<"static", IF cfg.ipc THEN Lower(r.path[2]) ELSE r.path[2]>> ELSE <<"dyn", r.path[2]>>

\* entries of the index for rule r: one per (ip bucket, method bucket)
Entries(cfg, r) ==
  { [scheme |-> r.scheme, host |-> HostKey(cfg, r), ip |-> ik, method |-> mk, hdr |-> HdrKey(cfg, r),
     date |-> DateKey(r), path |-> PathKey(cfg, r), id |-> r.id, rule |-> r] : ik \in IpKeys(r), mk \in MethodKeys(r) }

\* does request q reach entry e below the host layer?  (each layer's own bucket test)
IpReach(e, q) == e.ip = AnyKey \/ (q.ip # "" /\ IpSat(e.ip, q.ip))
MethodReach(e, q) == \/ e.method = AnyKey
                     \/ (e.method[1] = "m" /\ e.method[2] = Method(q))
                     \/ (e.method[1] = "excl" /\ Method(q) \notin ToSet(e.method[2]))
HdrReach(cfg, e, q) == e.hdr = AnyKey \/ HeadersSat(cfg, e.rule, q)      \* memoised per condition in the code
DateReach(e, q) == e.date = AnyKey \/ DateSat(e.rule, q)
PathReach(cfg, e, q) == IF e.path[1] = "static"
                        THEN e.path[2] = (IF cfg.ipc THEN Lower(q.path) ELSE q.path)
                        ELSE DynPathMatches(cfg.ipc, e.path[2], q.path)
Below(cfg, e, q) == IpReach(e, q) /\ MethodReach(e, q) /\ HdrReach(cfg, e, q) /\ DateReach(e, q) /\ PathReach(cfg, e, q)

ReqHost(cfg, q) == IF cfg.ihc THEN Lower(q.host) ELSE q.host
HostReach(cfg, e, q) == CASE e.host[1] = "static" -> q.host # "" /\ e.host[2] = ReqHost(cfg, q)
                          [] e.host[1] = "dyn"    -> q.host # "" /\ DynHostMatches(cfg.ihc, q.host)
                          [] OTHER -> FALSE
\* HostMatcher::match_request inside the scheme bucket sb
HostLevel(cfg, index, q, sb) ==
  LET mine == {e \in index : e.scheme = sb}
      spec == {e \in mine : e.host # AnyKey /\ HostReach(cfg, e, q) /\ Below(cfg, e, q)}
      anyh == {e \in mine : e.host = AnyKey /\ Below(cfg, e, q)}
  IN IF cfg.always \/ spec = {} THEN spec \cup anyh ELSE spec
\* SchemeMatcher::match_request: the any-scheme bucket, then the request's scheme bucket
MatchEntries(cfg, index, q) ==
  HostLevel(cfg, index, q, "") \cup (IF q.scheme = "" THEN {} ELSE HostLevel(cfg, index, q, q.scheme))
MatchI(cfg, index, q) == {e.id : e \in MatchEntries(cfg, index, q)}
\* number of times the id would be reported if no layer de-duplicated (overlapping ip buckets)
Multiplicity(cfg, index, q, id) == Cardinality({e \in MatchEntries(cfg, index, q) : e.id = id})

IndexOf(cfg, R) == UNION {Entries(cfg, r) : r \in R}
=============================================================================
