SPECIFICATION Spec
CONSTANTS
  Targets = {"t1", "t2"}
  Units = {"u1", "u2", "u3"}
  MaxEvents = 4
INVARIANTS AppliedMeetsReference Emit
CHECK_DEADLOCK FALSE
