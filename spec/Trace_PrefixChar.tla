--------------------------- MODULE Trace_PrefixChar ---------------------------
(* Binding of the prefix theorem to the real common_prefix_char_size (hook H2), and of the
   model's regex semantics to the regex crate (events rx).
   prefix {pa, pb, n}     n = verif_common_prefix_char_size(conc(pa), conc(pb))
   rx     {ic, p, hits}   probe strings that a one-leaf tree holding p answers to        *)
EXTENDS RadixOps, RadixProbes, Json, IOUtils
Rec == ndJsonDeserialize(IOEnv.TRACE)
VARIABLES l
Report(tag, cls) == PrintT(<<tag, l, cls>>)
Judge(ok, cls) == IF ok THEN TRUE ELSE Report("VERDICT", cls)
Drift(ok, cls) == IF ok THEN TRUE ELSE Report("DRIFT", cls)
IsEvent(e) == l <= Len(Rec) /\ Rec[l].ev = e /\ l' = l + 1

TracePrefix ==
  /\ IsEvent("prefix")
  /\ LET e == Rec[l] IN
     /\ Judge(TokensInChars(e.pa, e.n) >= 0 /\ TokensInChars(e.pb, e.n) >= 0, "prefix_cut_inside_token")
     /\ Judge(TokensInChars(e.pa, e.n) < 0 \/ SubSeq(e.pa, 1, TokensInChars(e.pa, e.n)) = SubSeq(e.pb, 1, TokensInChars(e.pa, e.n)), "prefix_not_common")
     /\ Drift(e.n = CharPrefixLen(ConcSeq(e.pa), ConcSeq(e.pb)), "prefix_length")
\* sanity of the model: Matches must agree with the regex crate on the probe universe
TraceRx ==
  /\ IsEvent("rx")
  /\ LET e == Rec[l] IN
     IF ToSet(e.hits) = {s \in ToSet(e.probes) : Matches(e.ic, e.p, s)} THEN TRUE ELSE Report("NOTE", "model_regex_semantics_differs")
TracePanic == IsEvent("panic") /\ Report("VERDICT", "panic")
TraceNext == TracePrefix \/ TraceRx \/ TracePanic
TraceSpec == l = 1 /\ [][TraceNext]_l
Accepted == LET d == TLCGet("stats").diameter IN
            IF d - 1 = Len(Rec) THEN PrintT(<<"ACCEPTED", Len(Rec)>>)
            ELSE Print(<<"REJECTED", d, IF d <= Len(Rec) THEN Rec[d] ELSE "eof">>, FALSE)
=============================================================================
