----------------------------- MODULE Trace_Marker -----------------------------
(* marker {rule, inst, o, olc}: o / olc = [m, loc, hf, bf] observed with the header name in the rule's
   spelling / in lower case; oa / ob = the header sent twice, a value the pattern cannot accept after / before it.
   oc = the same request on a twin router after Router::cache (capture expressions compiled in place);
   oi = twin router with every ignore-case flag set and the marker names spelled in camel case (a, aB, aBc): judged when
        no used marker is instantiated with a value containing an upper-case letter (for those values the flags change what
        is accepted and what is captured: outside this twin's premise).
   classes (C10): marker_match_wrong, target_substitution, header_filter_substitution,
                  body_filter_substitution, header_marker_name_case, header_marker_repeated,
                  marker_cached, marker_ignore_case_config                                                       *)
EXTENDS Marker, Json, IOUtils
TraceLog == ndJsonDeserialize(IOEnv.TRACE)
VARIABLES l
Report(tag, cls) == PrintT(<<tag, l, cls>>)
Judge(ok, cls) == IF ok THEN TRUE ELSE Report("VERDICT", cls)
IsEvent(e) == l <= Len(TraceLog) /\ TraceLog[l].ev = e /\ l' = l + 1
Obs(o, r, inst, cls) ==
  /\ Judge(o.m = AllAccepted(r, inst), IF cls = "" THEN "marker_match_wrong" ELSE cls)
  /\ Judge(o.m => o.loc = Substitute(r.target, r, inst, 1), IF cls = "" THEN "target_substitution" ELSE cls)
  /\ Judge(o.m => o.hf = Substitute(r.hfv, r, inst, 1), IF cls = "" THEN "header_filter_substitution" ELSE cls)
  /\ Judge(o.m => o.bf = "B" \o Substitute(r.bfv, r, inst, 1), IF cls = "" THEN "body_filter_substitution" ELSE cls)
UpperVals == {"aB", "A", "fooBar", "~E~COLE"}
LowerOnly(r, inst) == \A n \in Used(r) : inst[n] \notin UpperVals
TraceMarker ==
  /\ IsEvent("marker")
  /\ LET e == TraceLog[l] IN /\ Obs(e.o, e.rule, e.inst, "") /\ Obs(e.olc, e.rule, e.inst, "header_marker_name_case")
                             /\ Obs(e.oa, e.rule, e.inst, "header_marker_repeated") /\ Obs(e.ob, e.rule, e.inst, "header_marker_repeated")
                             /\ Obs(e.oc, e.rule, e.inst, "marker_cached")
                             /\ (LowerOnly(e.rule, e.inst) => Obs(e.oi, e.rule, e.inst, "marker_ignore_case_config"))
TracePanic == IsEvent("panic") /\ Report("VERDICT", "panic")
TraceNext == TraceMarker \/ TracePanic
TraceSpec == l = 1 /\ [][TraceNext]_l
Accepted == LET d == TLCGet("stats").diameter IN
            IF d - 1 = Len(TraceLog) THEN PrintT(<<"ACCEPTED", Len(TraceLog)>>)
            ELSE Print(<<"REJECTED", d, IF d <= Len(TraceLog) THEN TraceLog[d].ev ELSE "eof">>, FALSE)
=============================================================================
