----------------------------- MODULE Trace_Marker -----------------------------
(* marker {rule, inst, o, olc}: o / olc = [m, loc, hf, bf] observed with the header name in the rule's
   spelling / in lower case; oa / ob = the header sent twice, a value the pattern cannot accept after / before it.
   classes (C10): marker_match_wrong, target_substitution, header_filter_substitution,
                  body_filter_substitution, header_marker_name_case, header_marker_repeated                       *)
EXTENDS Marker, Json, IOUtils
TraceLog == ndJsonDeserialize(IOEnv.TRACE)
VARIABLES l
Report(tag, cls) == PrintT(<<tag, l, cls>>)
Judge(ok, cls) == IF ok THEN TRUE ELSE Report("VERDICT", cls)
IsEvent(e) == l <= Len(TraceLog) /\ TraceLog[l].ev = e /\ l' = l + 1
Obs(o, r, inst, cls) ==
  /\ Judge(o.m = AllAccepted(r, inst), IF cls = "" THEN "marker_match_wrong" ELSE cls)
  /\ Judge(o.m => o.loc = Substitute(r.target, r, inst, 1), IF cls = "" THEN "target_substitution" ELSE cls)
  /\ Judge(o.m => o.hf = Substitute(r.hfv, r, inst, 1), IF cls = "" THEN "header_filter_substitution" ELSE cls)
  /\ Judge(o.m => o.bf = "B" \o Substitute(r.bfv, r, inst, 1), IF cls = "" THEN "body_filter_substitution" ELSE cls)
TraceMarker ==
  /\ IsEvent("marker")
  /\ LET e == TraceLog[l] IN /\ Obs(e.o, e.rule, e.inst, "") /\ Obs(e.olc, e.rule, e.inst, "header_marker_name_case")
                             /\ Obs(e.oa, e.rule, e.inst, "header_marker_repeated") /\ Obs(e.ob, e.rule, e.inst, "header_marker_repeated")
TracePanic == IsEvent("panic") /\ Report("VERDICT", "panic")
TraceNext == TraceMarker \/ TracePanic
TraceSpec == l = 1 /\ [][TraceNext]_l
Accepted == LET d == TLCGet("stats").diameter IN
            IF d - 1 = Len(TraceLog) THEN PrintT(<<"ACCEPTED", Len(TraceLog)>>)
            ELSE Print(<<"REJECTED", d, IF d <= Len(TraceLog) THEN TraceLog[d].ev ELSE "eof">>, FALSE)
=============================================================================
