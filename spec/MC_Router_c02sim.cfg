SPECIFICATION Spec
CONSTANTS
  Pool <- PoolHist
  Cfgs <- CfgsQuick
  OpKinds = {"insert", "remove", "batch_remove", "change_set", "fork", "cache"}
  MaxOps = 10
  MaxRules = 4
  ReqUniverse <- Universe
INVARIANTS UniqueIds EmitOwn
CHECK_DEADLOCK FALSE
