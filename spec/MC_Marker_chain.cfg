SPECIFICATION Spec
CONSTANTS
  Mode = "chain"
INVARIANTS ChainsClosed Emit
CHECK_DEADLOCK FALSE
