---------------------------- MODULE MC_Tokenizer ----------------------------
EXTENDS Tokenizer, Json
CONSTANTS MaxLen, AlphaName
RECURSIVE Strs(_,_)
Strs(k, A) == IF k = 0 THEN {<<>>} ELSE LET S == Strs(k - 1, A) IN S \cup {Append(s, c) : s \in {x \in S : Len(x) = k - 1}, c \in A}
Alpha(a) == CASE a = "markup" -> {"<", ">", "/", "!", "-", "=", "\"", "'", " ", "a", "s", "x", "t", "[", "]", "?"}
              [] a = "small"  -> {"<", ">", "/", "a", "!"}
              [] a = "raw"    -> {"<", ">", "/", "x", "m", "p", "!", "-", " ", "="}
              [] a = "script" -> {"<", ">", "/", "s", "c", "r", "i", "p", "t", "-", "!"}
              \* an alphabet of FRAGMENTS: raw-text elements, partial end tags, escapes of script data, and characters of 2, 3 and 4 bytes
              \* (~e~ ~z~ ~g~: the harness substitutes them; their lead bytes are 0xC3, 0xE4, 0xF0), NUL (~0~)
              [] a = "frag"   -> {"<script>", "</script>", "</", "</scr", "<!--", "-->", "<b", "<title>", ">", "x", " ", "~e~", "~z~", "~g~", "~0~"}
\* all strings up to MaxLen over the chosen alphabet (one definition only: TLC evaluates constant definitions eagerly)
InputsDef == Strs(MaxLen, Alpha(AlphaName))
\* inputs only (no exploration of the abstract machine): used to print the inputs to replay
SpecInputs == Init /\ [][FALSE]_vars
Emit == PrintT(<<"REPLAY", ToJson([s |-> inp])>>)
=============================================================================
