SPECIFICATION Spec
CONSTANTS
  Patterns <- PSib
  Ids = {"i1", "i2", "i3", "i4"}
  Haystacks <- ProbesSib
  KeepSets = {{"i1", "i2"}}
  Limits = {2}
  Levels = {99}
  IgnoreCase = {FALSE}
  MaxOps = 4
VIEW View
INVARIANTS FindCorrect LenCorrect GetCorrect TreeInv RemoveReturnsValue CacheTransparent CacheBudget Emit
CHECK_DEADLOCK FALSE
