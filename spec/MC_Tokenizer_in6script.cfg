SPECIFICATION SpecInputs
CONSTANTS
  Inputs <- InputsDef
  MaxLen = 6
  AlphaName = "script"
INVARIANTS Emit
CHECK_DEADLOCK FALSE
