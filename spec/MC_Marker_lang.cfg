SPECIFICATION Spec
CONSTANTS
  Mode = "lang"
INVARIANTS ChainsClosed Emit
CHECK_DEADLOCK FALSE
