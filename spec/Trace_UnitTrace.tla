---------------------------- MODULE Trace_UnitTrace ----------------------------
(* units {kind, events | (h, fs), applied, seen}: the real UnitTrace after the events (driven directly, or caused by
   FilterHeaderAction::filter with unit ids), squashed.   classes (C19): unit_attribution_wrong      *)
EXTENDS UnitTrace, Json, IOUtils
TraceLog == ndJsonDeserialize(IOEnv.TRACE)
VARIABLES l
Report(tag, cls) == PrintT(<<tag, l, cls>>)
Judge(ok, cls) == IF ok THEN TRUE ELSE Report("VERDICT", cls)
IsEvent(e) == l <= Len(TraceLog) /\ TraceLog[l].ev = e /\ l' = l + 1
TraceUnits ==
  /\ IsEvent("units")
  /\ LET e == TraceLog[l]
         h == IF e.kind = "events" THEN e.events ELSE FilterEvents(e.fs, 1, e.h)
     IN /\ Judge(ToSet(e.applied) = AppliedRef(h), "unit_attribution_wrong")
        /\ Judge(ToSet(e.seen) = SeenRef(h), "unit_attribution_wrong")
TracePanic == IsEvent("panic") /\ Report("VERDICT", "panic")
TraceNext == TraceUnits \/ TracePanic
TraceSpec == l = 1 /\ byTarget = 0 /\ direct = 0 /\ seen = 0 /\ hist = 0 /\ [][TraceNext /\ UNCHANGED vars]_<<l, vars>>
Accepted == LET d == TLCGet("stats").diameter IN
            IF d - 1 = Len(TraceLog) THEN PrintT(<<"ACCEPTED", Len(TraceLog)>>)
            ELSE Print(<<"REJECTED", d, IF d <= Len(TraceLog) THEN TraceLog[d].ev ELSE "eof">>, FALSE)
=============================================================================
