--------------------------- MODULE RouterCacheLoop ---------------------------
(* Router::cache(limit) (src/router/mod.rs): the level-by-level warm-up loop with its retry
   counter, then the compilation of capture regexes with what is left of the budget.
   The matcher's cache(budget, level) is abstracted by its contract (checked on the real tree in
   RadixTree.tla / Trace_RadixTree.tla: CacheBudget): it returns a remaining budget in 0..budget.
   Design-level results: the loop TERMINATES for every behaviour of the matcher (liveness, under
   weak fairness of the loop itself), never spends more than the budget, and gives up only after
   six levels in a row without progress.                                                   *)
EXTENDS Naturals, Integers, TLC
CONSTANTS MaxLimit, MaxRoutes

VARIABLES pc, prev, level, retry, left, routes
vars == <<pc, prev, level, retry, left, routes>>

Init == /\ pc = "loop" /\ prev \in 0..MaxLimit /\ level = 0 /\ retry = 0 /\ left = 0 /\ routes \in 0..MaxRoutes

\* one iteration of `while prev_cache_limit > 0`
Iterate ==
  /\ pc = "loop"
  /\ IF prev <= 0 THEN pc' = "routes" /\ left' = prev /\ UNCHANGED <<prev, level, retry, routes>>
     ELSE \E next \in 0..prev :                       \* the matcher's answer
            IF next = prev /\ retry + 1 > 5
            THEN pc' = "routes" /\ left' = prev /\ retry' = retry + 1 /\ UNCHANGED <<prev, level, routes>>
            ELSE /\ retry' = IF next = prev THEN retry + 1 ELSE retry
                 /\ level' = level + 1 /\ prev' = next /\ UNCHANGED <<pc, left, routes>>
\* `for route in routes.values() { left -= route.compile(); if left <= 0 { break } }`
CompileRoute ==
  /\ pc = "routes"
  /\ IF left <= 0 \/ routes = 0 THEN pc' = "done" /\ UNCHANGED <<left, routes>>
     ELSE \E c \in 0..2 : left' = left - c /\ routes' = routes - 1 /\ UNCHANGED pc
  /\ UNCHANGED <<prev, level, retry>>
Next == Iterate \/ CompileRoute \/ (pc = "done" /\ UNCHANGED vars)
Spec == Init /\ [][Next]_vars /\ WF_vars(Iterate) /\ WF_vars(CompileRoute)

Terminates == <>(pc = "done")
TypeOK == prev \in 0..MaxLimit /\ retry \in 0..6 /\ left \in (0 - 1)..MaxLimit /\ level \in 0..(MaxLimit + 7)
\* the level counter never runs away: at most one level per unit of budget plus the six retries
LevelBound == level <= MaxLimit + 6
\* the loop gives up only after six levels without progress, or when the budget is spent
GivesUpLate == (pc # "loop" /\ left > 0) => retry = 6
\* the inductive invariant that Apalache discharges for an UNBOUNDED budget (RouterCacheLoopInd.tla): here an invariant of the bounded instance
IndInv ==
  /\ pc \in {"loop", "routes", "done"}
  /\ 0 <= prev /\ prev <= MaxLimit
  /\ 0 <= retry /\ retry <= 6
  /\ 0 <= level
  /\ 0 <= routes /\ routes <= MaxRoutes
  /\ left <= prev
  /\ level + prev <= MaxLimit + retry
  /\ (pc = "loop" => retry <= 5 /\ left = 0)
  /\ GivesUpLate
=============================================================================
