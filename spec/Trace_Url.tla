------------------------------ MODULE Trace_Url ------------------------------
(* url {cfg, ru, rule_norm, m, norms, locs, idem}: a rule built from URL number ru of the universe,
   matched against a request for every URL v of the universe:
     m[v]      the rule matched;  norms[v] the request's matching form;  locs[v] the Location header;
     clocs[v]  the Location header of a catch-all rule /@rest -> /n/@rest on the same request
     idem[v]   <<rebuild(rebuild(q)) = rebuild(q), match after rebuild>>
     mm[v]     a twin rule with the same literal path and query that declares markers (one used by its host "@sub.com", one by nothing) matched
   classes (C09): url_match_wrong, marketing_off_request_not_normalised (known), case_fold_after_sort,
                  marketing_params_forwarding, rebuild_not_idempotent, declared_marker_changes_literal_match                        *)
EXTENDS MC_Url, IOUtils
TraceLog == ndJsonDeserialize(IOEnv.TRACE)
\* the URL universe in the order the harness used it (printed by the model-checking run)
Univ == JsonDeserialize(IOEnv.UNIVERSE).urls
VARIABLES l
Report(tag, cls) == PrintT(<<tag, l, cls>>)
Judge(ok, cls) == IF ok THEN TRUE ELSE Report("VERDICT", cls)
Drift(ok, cls) == IF ok THEN TRUE ELSE Report("DRIFT", cls)
IsEvent(e) == l <= Len(TraceLog) /\ TraceLog[l].ev = e /\ l' = l + 1
RECURSIVE JoinStr(_,_)
JoinStr(s, i) == IF i > Len(s) THEN "" ELSE s[i] \o JoinStr(s, i + 1)
\* one verdict per (rule URL, request URL) pair: "" = conforms
\* a disagreement with layer P is a known deviation only when the code-shaped model predicts the observed result
PairVerdict(e, c, r, cr, rf, i) ==
  LET v == Univ[i] IN
  IF CleanKeys(v, c) /\ e.m[i] # (cr = Canonical(v, c))
  THEN (IF e.m[i] = (rf = ReqForm(v, c)) THEN DeviationClass(r, v, c) ELSE "url_match_wrong")
  ELSE IF e.m[i] /\ e.locs[i] # "/t" \o (IF SkippedParams(v, c) = <<>> THEN "" ELSE "?" \o JoinStr(SkippedParams(v, c), 1)) THEN "marketing_params_forwarding"
  ELSE IF ~(e.idem[i][1] /\ e.idem[i][2] = e.m[i]) THEN "rebuild_not_idempotent"
  \* the catch-all rule /@rest -> /n/@rest: the target is the request's matching form, the forwarded parameters follow
  \* with the separator that target needs
  \* (captures keep the letter case the client sent: the form without case folding)
  ELSE IF e.clocs[i] # "/n" \o JoinStr(ReqForm(v, [c EXCEPT !.icase = FALSE]), 1) \o (IF SkippedParams(v, c) = <<>> THEN ""
                                               ELSE (IF "?" \in ToSet(ReqForm(v, c)) THEN "&" ELSE "?") \o JoinStr(SkippedParams(v, c), 1))
       THEN "marketing_params_forwarding"
  ELSE ""
PairDrift(e, c, r, rf, i) ==
  LET v == Univ[i] f == ReqForm(v, c) IN e.norms[i] # JoinStr(f, 1) \/ e.m[i] # (rf = f)
TraceUrl ==
  /\ IsEvent("url")
  /\ LET e == TraceLog[l]
         c == [mkt |-> e.cfg.mkt, icase |-> e.cfg.icase, pass |-> e.cfg.pass, ms |-> e.cfg.ms, mparams |-> MSet(e.cfg.ms)]
         r == Univ[e.ru]
         rf == RuleForm(r, c)
         cr == Canonical(r, c)
         judged == CleanKeys(r, c) /\ RuleSpace(r, c)
         bad == IF judged THEN {<<i, PairVerdict(e, c, r, cr, rf, i)>> : i \in 1..Len(Univ)} \ {<<i, "">> : i \in 1..Len(Univ)} ELSE {}
         classes == {b[2] : b \in bad}
         drift == {i \in 1..Len(Univ) : PairDrift(e, c, r, rf, i)}
     IN /\ Drift(e.rule_norm = JoinStr(rf, 1), "rule_form")
        /\ \A cls \in classes : PrintT(<<"VERDICT", l, cls, Cardinality({b \in bad : b[2] = cls})>>)
        /\ Judge(\A i \in 1..Len(Univ) : e.mm[i] = e.m[i], "declared_marker_changes_literal_match")
        /\ Drift(drift = {}, "request_form_or_match")
  /\ UNCHANGED vars
TracePanic == IsEvent("panic") /\ Report("VERDICT", "panic") /\ UNCHANGED vars
TraceNext == TraceUrl \/ TracePanic
TraceSpec == cfg = 0 /\ ru = 0 /\ l = 1 /\ [][TraceNext]_<<vars, l>>
Accepted == LET d == TLCGet("stats").diameter IN
            IF d - 1 = Len(TraceLog) THEN PrintT(<<"ACCEPTED", Len(TraceLog)>>)
            ELSE Print(<<"REJECTED", d, IF d <= Len(TraceLog) THEN TraceLog[d].ev ELSE "eof">>, FALSE)
=============================================================================
