SPECIFICATION Spec
CONSTANTS
  Pool <- PoolEq
  MaxRules = 2
  Codes = {0, 200, 404, 500}
  Overrides = {"none"}
  Scripts <- ScriptsFull
INVARIANTS FoldMeetsReference AppliedMeetsReference OrderIsTotal OnlyWindowRules Emit
CHECK_DEADLOCK FALSE
