#!/usr/bin/env python3
"""Generates BodyCases.tla: documents (lexeme sequences cut into units) and filter lists for the
BodyFilter specifications.  The output is committed; re-run after editing the tables below."""
import json

def q(s):
    return '"' + s.replace('\\', '\\\\').replace('"', '\\"') + '"'

def lex(k, n, us, sel=False):
    return '[k |-> %s, n |-> %s, us |-> <<%s>>, sel |-> %s]' % (q(k), q(n), ", ".join(q(u) for u in us), "TRUE" if sel else "FALSE")

def st(n, attrs="", sel=False, upper=False):
    name = n.upper() if upper else n
    us = ["<", name] + ([attrs] if attrs else []) + [">"]
    return lex("stag", n, us, sel)

def et(n, upper=False):
    return lex("etag", n, ["<", "/" + (n.upper() if upper else n), ">"])

def sc(n, attrs="", sel=False):
    return lex("sc", n, ["<", n] + ([attrs] if attrs else []) + ["/>"], sel)

def tx(*us):
    return lex("text", "", list(us))

def txlt(*us):
    return lex("textlt", "", list(us))

COPEN = lex("copen", "", ["<", "!--"])
CCLOSE = lex("cclose", "", ["-->"])

def ptag(*us):
    return lex("ptag", "", list(us))

DOCS = {
  # ---- well formed (C15 domain candidates) ----
  "A1": [st("html"), st("head"), st("meta"), et("head"), st("body"), tx("text"), et("body"), et("html")],
  "A2": [st("html"), st("head"), st("meta", ' class="x"', True), et("head"), st("body", ' class="a>b"'), st("div", ' class="x"', True), tx("hi"), et("div"),
         st("div"), tx("yo"), et("div"), sc("br"), et("body"), et("html")],
  "A3": [st("html"), st("body"), st("p"), tx("one"), et("p"), st("p", " class='x'", True), tx("two"), et("p"), st("img", ' src="i"'), et("body"), et("html")],
  "A4": [st("html", upper=True), st("body", upper=True), tx("x"), et("body", upper=True), et("html", upper=True)],
  "A5": [st("html"), st("body"), st("div"), st("span"), tx("a &amp; b"), et("span"), et("div"), et("body"), et("html")],
  "A6": [st("html"), st("head"), et("head"), st("body"), et("body"), et("html")],
  "A7": [st("html"), st("head"), st("title"), tx("T"), et("title"), st("meta", " name=k"), et("head"), st("body"), st("div"), st("p"), tx("in"), et("p"), et("div"), st("p"), tx("out"), et("p"), et("body"), et("html")],
  "A8": [st("body"), tx("only body"), et("body")],
  # ~e~ ~z~ ~g~ ~u~ stand for 2, 3, 4 and 2 byte characters (the harness substitutes them); TLA+ sources stay ASCII
  "A9": [st("html"), st("body", ' title="~e~"'), tx("caf", "~e~", " ~z~~g~"), st("p"), tx("~u~"), et("p"), et("body"), et("html")],
  "A10": [st("html"), st("body"), sc("span"), st("p"), tx("t"), et("p"), sc("path", ' d="m"'), et("body"), et("html")],
  "A11": [st("html"), st("body"), st("div", ' class="x"', True), txlt("if (a ", "< b)"), st("p"), tx("t"), et("p"), et("div"), st("div"), txlt("1 <", " 2"), et("div"), et("body"), et("html")],
  # ~big~ is expanded by the harness to 70 000 highly compressible bytes
  "A12": [st("html"), st("body"), tx("~big~"), st("p"), tx("t"), et("p"), et("body"), et("html")],
  # ~rnd~ is expanded by the harness to 70 000 bytes of noise (letters and digits): it hardly compresses, so one call of an
  # encoder stage has to emit more than any internal buffer of the codec holds
  "A17": [st("html"), st("body"), tx("~rnd~"), st("p"), tx("t"), et("p"), et("body"), et("html")],
  # a text with a bare '<' FOLLOWED by multi-byte characters (held text + a character cut by the chunk end), two-byte characters in a row
  "A18": [st("html"), st("body"), st("p"), txlt("1 ", "< 2 caf", "~e~", "~u~", " ~z~"), et("p"), st("div", ' class="x"', True), txlt("a ", "<", "~e~"), et("div"), et("body"), et("html")],
  # upper-case elements carrying the selector's class; a '>' inside a quoted attribute of a target without a selector hit
  "A13": [st("html", upper=True), st("head", upper=True), st("meta", ' CLASS="x"', True, upper=True), et("head", upper=True), st("body", ' data-if="a > b"', upper=True),
          st("div", " title='1>0'"), tx("hi"), et("div"), st("p", ' class="x"', True, upper=True), tx("t"), et("p", upper=True), et("body", upper=True), et("html", upper=True)],
  "A14": [st("html"), st("head"), st("title"), tx("T"), et("title"), et("head"), st("body", ' data-if="a > b" data-root="/app/v2"'), st("div", " title='1>0'"), tx("hi"), et("div"), et("body"), et("html")],
  # ~a~ ~y~ ~A~ are characters whose UTF-8 continuation bytes are 0xA0 / 0x85; unquoted values, attribute and tag names
  "A15": [st("html"), st("body"), st("p", " title=voil~a~~A~ data-~y~=1"), tx("t~a~"), et("p"), st("x-~y~n", ' class="x"', True), tx("u"), et("x-~y~n"), et("body"), et("html")],
  # comments inside elements that the filters buffer (selector filters on head / body div, replace)
  "A16": [st("html"), st("head"), COPEN, tx(" c "), CCLOSE, st("meta", ' class="x"', True), et("head"), st("body"), st("div", ' class="x"', True), COPEN, tx(" d "), CCLOSE, tx("hi"), et("div"),
          st("p"), COPEN, tx("e"), CCLOSE, et("p"), et("body"), et("html")],
  # ---- comments, raw text, malformed, truncated (C03 / C04) ----
  "B1": [st("html"), COPEN, tx(" "), st("body"), tx(" "), CCLOSE, st("body"), tx("x"), et("body"), et("html")],
  "B2": [st("html"), st("head"), st("title"), tx("x "), st("body"), tx(" y"), et("title"), et("head"), st("body"), tx("z"), et("body"), et("html")],
  "B3": [st("html"), st("body"), st("script"), tx("var a='"), st("body"), et("body"), tx("';"), et("script"), tx("t"), et("body"), et("html")],
  "B4": [st("html"), st("head"), st("meta", ' class="x"', True), tx("t"), ptag("<", "bo")],
  "B5": [st("html"), st("body"), txlt("a ", "< b"), et("body"), et("html")],
  "B6": [et("div"), st("html"), st("body"), tx("x"), et("body"), et("html"), et("p")],
  "B7": [st("html"), st("body"), st("p"), tx("unclosed"), st("div"), tx("x"), et("div"), et("body"), et("html")],
  "B8": [tx("just ", "text")],
  "B9": [],
  "B10": [st("html"), st("head"), st("meta"), st("link", ' rel="x"'), ptag("<", "/he")],
  # ~!~ is an invalid byte (0xFF): the chain enters its error state when it reaches it
  "B12": [st("html"), st("p"), txlt("caf", "< b"), tx("~!~"), et("p"), et("html")],
  "B13": [st("html"), st("head"), st("meta", ' class="x"', True), tx("~!~"), et("head"), st("body"), tx("t"), et("body"), et("html")],
  "B14": [st("html"), st("head"), st("meta"), et("meta"), st("link", ' rel="y"'), et("head"), st("body"), et("span"), tx("t"), et("body"), et("html")],
  # upper-case raw-text and table elements
  "B15": [st("html"), st("head"), st("title", upper=True), tx("x"), et("title", upper=True), et("head"), st("body"), st("script", upper=True), tx("var a;"), et("script", upper=True),
          st("table", upper=True), st("tr", upper=True), et("tr", upper=True), et("table", upper=True), tx("t"), et("body"), et("html")],
  "B11": [st("html"), st("body"), st("div", ' class="x"', True), tx("a"), st("div"), tx("b"), et("div"), et("div"), txlt("1 <", " 2"), et("body"), et("html")],
}

def flt(act, path, sel, value):
    return '[act |-> %s, path |-> <<%s>>, sel |-> %s, value |-> %s]' % (q(act), ", ".join(q(p) for p in path), q(sel), q(value))

def fl(*specs):
    out = []
    for k, spec in enumerate(specs, 1):
        (act, path, sel) = spec[:3]
        # an optional 4th element gives the value (default: the sentinel of the filter's position)
        out.append(flt(act, path, sel, spec[3] if len(spec) > 3 else "[[V%d]]" % k))
    return "<<" + ", ".join(out) + ">>"

FILTERS = {
  "F1": fl(("append", ["html", "body"], "none")),
  "F2": fl(("prepend", ["html", "body"], "none")),
  "F3": fl(("append", ["html", "head"], "x")),
  "F4": fl(("prepend", ["html", "head"], "x")),
  "F5": fl(("replace", ["html", "head", "meta"], "none")),
  "F6": fl(("replace", ["html", "body", "div"], "x")),
  "F7": fl(("append", ["body"], "none")),
  "F8": fl(("append", ["html", "head"], "x"), ("prepend", ["html", "body"], "none")),
  "F9": fl(("text_append", [], "none")),
  "F10": fl(("prepend", ["html", "body"], "none"), ("text_prepend", [], "none")),
  "F11": fl(("replace", ["html", "body", "p"], "none"), ("append", ["html", "body"], "none")),
  "F12": fl(("text_replace", [], "none")),
  "F13": fl(("append", ["html", "body", "div"], "none")),
  "F14": fl(("prepend", ["html", "body", "div", "p"], "none")),
  "F15": fl(("replace", ["html", "body", "p"], "x")),
  "F16": fl(("append", ["html", "body"], "x"), ("append", ["html", "body"], "none")),
  "F17": fl(("replace", ["html", "body", "br"], "none")),
  "F18": fl(("prepend", ["html", "head", "title"], "none")),
  "F19": fl(("append", ["html", "body"], "none"), ("text_append", [], "none"), ("prepend", ["html", "head"], "none")),
  "F20": "<<>>",
  "F21": fl(("append", ["html", "head", "title"], "none")),
  "F22": fl(("replace", ["html", "head", "title"], "none"), ("append", ["html", "body"], "none")),
  # selector filters on the body (its start tag may hold a '>'), depth-1 paths, type + class selectors
  "F23": fl(("prepend", ["html", "body"], "x")),
  "F24": fl(("append", ["html"], "none")),
  "F25": fl(("prepend", ["html", "body", "div"], "x"), ("append", ["html", "body", "div"], "x")),
  "F26": fl(("append", ["html", "head"], "meta")),
  "F27": fl(("replace", ["html", "body", "p"], "p"), ("prepend", ["html", "body"], "p")),
  "F28": fl(("append", ["html"], "x"), ("prepend", ["html"], "none")),
  # a text prepend as the FIRST stage of the chain (alone, and before an html stage)
  "F30": fl(("text_prepend", [], "none")),
  "F31": fl(("text_prepend", [], "none"), ("append", ["html", "body"], "none")),
  # a self-closing non-void target; the EMPTY selector (the serialised form of "no selector"); an empty value (replace = remove)
  "F32": fl(("replace", ["html", "body", "span"], "none"), ("append", ["html", "body"], "none")),
  "F33": fl(("append", ["html", "body"], "empty"), ("prepend", ["html", "body"], "empty")),
  "F34": fl(("replace", ["html", "body", "p"], "none", ""), ("append", ["html", "body"], "none")),
  "F35": fl(("replace", ["html", "head", "meta"], "empty")),
  # an html stage BEFORE a text replace (the replace drops what the stages before it produced), and after it
  "F36": fl(("append", ["html", "body"], "none"), ("text_replace", [], "none")),
  "F37": fl(("text_replace", [], "none"), ("append", ["html", "body"], "none")),
  # a non-empty list that builds nothing (unknown action): only used by the pipeline cases
  "F29": fl(("unknown", ["html", "body"], "none")),
}

def main():
    out = ["----------------------------- MODULE BodyCases -----------------------------",
           "(* GENERATED by gen_body_cases.py -- documents and filter lists for the body filter specifications *)", ""]
    for name, d in DOCS.items():
        out.append("%s == <<%s>>" % (name, ",\n       ".join(d)))
    out.append("")
    for name, f in FILTERS.items():
        out.append("%s == %s" % (name, f))
    out.append("")
    out.append("DocName(d) == " + " ".join("%s d = %s -> %s" % ("CASE" if i == 0 else "[]", n, q(n)) for i, n in enumerate(DOCS)) + ' [] OTHER -> "?"')
    out.append("Case(d, f) == [doc |-> d, fs |-> f]")
    out.append("Prod(D, F) == {Case(d, f) : d \\in D, f \\in F}")
    out.append("DocsWell == {%s}" % ", ".join(n for n in DOCS if n.startswith("A")))
    out.append("DocsMessy == {%s}" % ", ".join(n for n in DOCS if n.startswith("B")))
    out.append("FiltersAll == {%s}" % ", ".join(f for f in FILTERS if f != "F29"))
    out.append("FiltersQuick == {F1, F2, F3, F4, F5, F6, F7, F8, F10, F11, F12, F16, F21, F23, F24, F25, F26, F27, F30, F31, F32, F33, F34, F35, F36}")
    out.append("DocsQuick == {A2, A3, A7, A8, A9, A10, A11, A18, A13, A14, A15, A16, B1, B2, B3, B4, B5, B7, B11, B12, B13, B14, B15}")
    out.append("CasesQuick == Prod(DocsQuick, FiltersQuick)")
    out.append("CasesAll == Prod(DocsWell \\cup DocsMessy, FiltersAll)")
    out.append("=============================================================================")
    open("BodyCases.tla", "w").write("\n".join(out) + "\n")
    print("BodyCases.tla: %d documents, %d filter lists" % (len(DOCS), len(FILTERS)))

if __name__ == "__main__":
    main()
