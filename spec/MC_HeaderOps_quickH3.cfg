SPECIFICATION Spec
CONSTANTS
  Names = {"x-a", "X-A", "x-b"}
  HValues = {"1"}
  FValues = {"2", ""}
  Ops = {"add", "remove", "replace", "override", "default", "bogus"}
  MaxH = 3
  MaxF = 2
INVARIANTS StepMeetsOpPost FoldMeetsReference FrameCondition RemoveLeavesNone DefaultIdempotent UnknownIsIdentity Emit
CHECK_DEADLOCK FALSE
