SPECIFICATION Spec
CONSTANTS
  Patterns <- PDeep
  Ids = {"i1", "i2", "i3"}
  Haystacks <- ProbesDeep
  KeepSets = {{"i1", "i2"}}
  Limits = {4}
  Levels = {99}
  IgnoreCase = {FALSE}
  MaxOps = 5
VIEW ViewKinds
INVARIANTS FindCorrect LenCorrect GetCorrect TreeInv RemoveReturnsValue CacheTransparent CacheBudget Emit
CHECK_DEADLOCK FALSE
