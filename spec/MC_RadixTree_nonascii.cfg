SPECIFICATION Spec
CONSTANTS
  Patterns <- PNa
  Ids = {"i1", "i2", "i3"}
  Haystacks <- ProbesNa
  KeepSets = {{"i1"}, {"i2", "i3"}}
  Limits = {1, 2}
  Levels = {0, 99}
  IgnoreCase = {FALSE, TRUE}
  MaxOps = 3
VIEW View
INVARIANTS FindCorrect LenCorrect GetCorrect TreeInv RemoveReturnsValue CacheTransparent CacheBudget Emit
CHECK_DEADLOCK FALSE
