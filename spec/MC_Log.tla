-------------------------------- MODULE MC_Log --------------------------------
EXTENDS Log, Json
Hd(n, k, items) == [name |-> n, kind |-> k, items |-> items]
ReqPool == { Hd("X-Forwarded-For", "xff", <<<<"", "10.0.0.1">>, <<"", " 10.0.0.2 ">>, <<"", "unknown">>>>), Hd("X-FORWARDED-FOR", "xff", <<<<"", "10.0.0.3:8080">>, <<"", "[::1]:80">>, <<"", "1.2.3.4:99999">>>>),
             Hd("Forwarded", "fwd", <<<<"for", "\"[2001:db8::1]:4711\"">>, <<"proto", "https">>, <<"For", "10.0.0.1">>>>),
             Hd("FORWARDED", "fwd", <<<<"by", "10.0.0.1">>, <<"for", "_hidden">>, <<" for ", "\"10.0.0.4\"">>, <<"for", "\"">>>>),
             Hd("User-Agent", "plain", <<<<"", "ua1">>>>), Hd("Referer", "plain", <<<<"", "ref1">>>>), Hd("REFERER", "plain", <<<<"", "ref2">>>>), Hd("X-Other", "plain", <<<<"", "10.0.0.1">>>>) }
RespPool == { Hd("Location", "plain", <<<<"", "/a">>>>), Hd("LOCATION", "plain", <<<<"", "/b">>>>), Hd("Content-Type", "plain", <<<<"", "text/html">>>>), Hd("X-Other", "plain", <<<<"", "x">>>>) }
Emit == PrintT(<<"REPLAY", ToJson([client |-> client, req |-> req, resp |-> resp])>>)
=============================================================================
