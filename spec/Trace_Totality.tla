---------------------------- MODULE Trace_Totality ----------------------------
(* call {entry, dims} ; return | panic {msg} | abort | timeout
   Every recorded call must be a Call of Totality.tla and must be followed by return.
   classes (C07): panic, abort (stack overflow / panic that cannot unwind), timeout (no return within the bound),
                  call_outside_specification                                                        *)
EXTENDS Totality, Json, IOUtils, SequencesExt
TraceLog == ndJsonDeserialize(IOEnv.TRACE)
VARIABLES l
Report(tag, cls) == PrintT(<<tag, l, cls>>)
Judge(ok, cls) == IF ok THEN TRUE ELSE Report("VERDICT", cls)
IsEvent(e) == l <= Len(TraceLog) /\ TraceLog[l].ev = e /\ l' = l + 1
InSpec(e) == /\ e.entry \in Entries
             /\ \A k \in 1..Len(e.dims) : e.dims[k][1] \in Dims(e.entry) /\ e.dims[k][2] \in Classes(e.entry, e.dims[k][1])
TraceCall == /\ IsEvent("call")
             /\ LET e == TraceLog[l] IN
                /\ Judge(InSpec(e), "call_outside_specification")
                /\ state' = "called" /\ last' = [entry |-> e.entry, dims |-> e.dims]
TraceReturn == IsEvent("return") /\ Return
\* anything else than a return: the call did not return; the next call starts from there
Failed(kind) == /\ IsEvent(kind) /\ Report("VERDICT", kind)
                /\ state' = "returned" /\ UNCHANGED last
TraceNext == TraceCall \/ TraceReturn \/ Failed("panic") \/ Failed("abort") \/ Failed("timeout")
TraceSpec == Init /\ l = 1 /\ [][TraceNext]_<<vars, l>>
Accepted == LET d == TLCGet("stats").diameter IN
            IF d - 1 = Len(TraceLog) THEN PrintT(<<"ACCEPTED", Len(TraceLog)>>)
            ELSE Print(<<"REJECTED", d, IF d <= Len(TraceLog) THEN TraceLog[d].ev ELSE "eof">>, FALSE)
=============================================================================
