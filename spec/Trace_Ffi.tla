------------------------------- MODULE Trace_Ffi -------------------------------
(* Trace validation for the C surface (C18).
   begin   {cid}                      a new call sequence starts with an empty audit heap
   call    {call, args, creates, consumes, obs, returned_null, allocs, transient, overflow}
   quiesce {released, allocs}         the caller released everything it still owned
   abort   {cid}                      the process aborted inside the sequence (a panic cannot unwind out of extern "C")
   allocs: <<"alloc", p, size, align>> | <<"dealloc", p, size, align>> | <<"realloc", p, size, align, np, nsize>>
           (alloc/dealloc pairs of one call with the identical layout are elided by the recorder and counted in `transient`)

   classes (C18): dealloc_layout_mismatch, double_free_or_unknown_pointer, alloc_of_live_pointer, leak_after_release,
                  content_differs_from_native, null_contract, ownership_protocol, abort                  *)
EXTENDS Ffi, Json, IOUtils, SequencesExt
TraceLog == ndJsonDeserialize(IOEnv.TRACE)
VARIABLES l, heap      \* heap: set of <<p, size, align>> allocated by the sequence and not yet released
tvars == <<vars, l, heap>>
Report(tag, cls) == PrintT(<<tag, l, cls>>)
Judge(ok, cls) == IF ok THEN TRUE ELSE Report("VERDICT", cls)
IsEvent(e) == l <= Len(TraceLog) /\ TraceLog[l].ev = e /\ l' = l + 1
Has(r, f) == f \in DOMAIN r

\* the allocator contract, event by event: returns <<heap, set of violated clauses>>
RECURSIVE Audit(_,_,_,_)
Audit(evs, i, h, bad) ==
  IF i > Len(evs) THEN <<h, bad>>
  ELSE LET e == evs[i] IN
       IF e[1] = "alloc" THEN
          Audit(evs, i + 1, h \cup {<<e[2], e[3], e[4]>>}, IF \E x \in h : x[1] = e[2] THEN bad \cup {"alloc_of_live_pointer"} ELSE bad)
       ELSE IF e[1] = "dealloc" THEN
          IF <<e[2], e[3], e[4]>> \in h THEN Audit(evs, i + 1, h \ {<<e[2], e[3], e[4]>>}, bad)
          ELSE IF \E x \in h : x[1] = e[2] THEN Audit(evs, i + 1, {x \in h : x[1] # e[2]}, bad \cup {"dealloc_layout_mismatch"})
          ELSE Audit(evs, i + 1, h, bad \cup {"double_free_or_unknown_pointer"})
       ELSE \* realloc
          IF <<e[2], e[3], e[4]>> \in h THEN Audit(evs, i + 1, (h \ {<<e[2], e[3], e[4]>>}) \cup {<<e[5], e[6], e[4]>>}, bad)
          ELSE IF \E x \in h : x[1] = e[2] THEN Audit(evs, i + 1, {x \in h : x[1] # e[2]} \cup {<<e[5], e[6], e[4]>>}, bad \cup {"dealloc_layout_mismatch"})
          ELSE Audit(evs, i + 1, h \cup {<<e[5], e[6], e[4]>>}, bad \cup {"double_free_or_unknown_pointer"})

\* content relations recorded next to the native API
ContentOK(e) ==
  LET o == e.obs IN
  IF DOMAIN o = {} THEN TRUE       \* the call was skipped: an argument the model expected had come back NULL
  ELSE
  CASE e.call = "action_get_status_code" -> o.c0 = o.n0 /\ o.c404 = o.n404
    [] e.call = "action_should_log_request" -> o.c = o.n
    [] e.call = "action_json_serialize" -> o.native_equal /\ ~o.null
    [] e.call = "request_json_serialize" -> o.roundtrips /\ ~o.null
    [] e.call = "action_header_filter_filter" -> o.out = o.native /\ o.input_after = o.input_before /\ (e.args[1] = 0 => o.same_pointer)
    [] e.call = "action_body_filter_create" -> o.null = o.native_null
    [] e.call = "action_body_filter_filter" -> o.equal_native /\ (e.args[1] = 0 => o.input_intact /\ o.distinct_memory)
    [] e.call = "action_body_filter_close" -> o.equal_native
    [] e.call = "api_create_log_in_json" -> o.is_json /\ ~o.null
    [] e.call = "null_calls" -> o.all_null /\ o.status = 0 /\ o.log
    [] OTHER -> TRUE

TraceBegin == /\ IsEvent("begin") /\ heap' = {} /\ live' = {} /\ nextid' = 1 /\ ncalls' = 0 /\ hist' = <<>>
TraceCall ==
  /\ IsEvent("call")
  /\ LET e == TraceLog[l] r == Audit(e.allocs, 1, heap, {}) IN
     /\ heap' = r[1]
     /\ \A cls \in r[2] : Report("VERDICT", cls)
     /\ Judge(~e.overflow, "recorder_overflow")
     /\ Judge(ContentOK(e), IF e.call = "null_calls" THEN "null_contract" ELSE "content_differs_from_native")
     \* the ownership ledger of the specification: consumed objects were owned, created ids are fresh
     /\ Judge(ToSet(e.consumes) \subseteq {o.id : o \in live}, "ownership_protocol")
     /\ live' = {o \in live : o.id \notin ToSet(e.consumes)} \cup (IF e.returned_null THEN {} ELSE {Obj(i, "x", "") : i \in ToSet(e.creates)})
     /\ nextid' = nextid + Len(e.creates) /\ ncalls' = ncalls + 1 /\ hist' = <<>>
TraceQuiesce ==
  /\ IsEvent("quiesce")
  /\ LET e == TraceLog[l] r == Audit(e.allocs, 1, heap, {}) IN
     /\ heap' = r[1]
     /\ \A cls \in r[2] : Report("VERDICT", cls)
     /\ Judge(r[1] = {}, "leak_after_release")
     /\ Judge(ToSet(e.released) = {o.id : o \in live}, "ownership_protocol")
  /\ UNCHANGED vars
TraceAbort == IsEvent("abort") /\ Report("VERDICT", "abort") /\ UNCHANGED <<vars, heap>>
TraceTimeout == IsEvent("timeout") /\ Report("VERDICT", "timeout") /\ UNCHANGED <<vars, heap>>
TraceNext == TraceBegin \/ TraceCall \/ TraceQuiesce \/ TraceAbort \/ TraceTimeout
TraceSpec == Init /\ l = 1 /\ heap = {} /\ [][TraceNext]_tvars
Accepted == LET d == TLCGet("stats").diameter IN
            IF d - 1 = Len(TraceLog) THEN PrintT(<<"ACCEPTED", Len(TraceLog)>>)
            ELSE Print(<<"REJECTED", d, IF d <= Len(TraceLog) THEN TraceLog[d].ev ELSE "eof">>, FALSE)
=============================================================================
