------------------------------ MODULE MC_Action ------------------------------
(* Model-checking instances of Action: rule pools, query scripts, behaviour dump. *)
EXTENDS Action, Json

\* ids are compared as STRINGS (rank desc, id desc): all-digit ids whose string order ("07" < "10" < "7" < "9") is not their
\* numeric order, two of them equal as numbers; n is the position in the string order
IdOf(i) == CASE i = 1 -> "07" [] i = 2 -> "10" [] i = 3 -> "7" [] i = 4 -> "9"
Cond == { <<{}, FALSE>>, <<{404}, FALSE>>, <<{404}, TRUE>>, <<{}, TRUE>> }
Cond3 == { <<{}, FALSE>>, <<{404}, FALSE>>, <<{404}, TRUE>> }
Cond2 == { <<{}, FALSE>>, <<{404}, FALSE>> }
\* lists of several codes (the harness writes them in DESCENDING order: the list is not sorted by the rule author)
CondM == Cond3 \cup { <<{404, 500}, FALSE>>, <<{200, 500}, TRUE>> }

R(i, rk, sc, cd, hf, tgt, bf, lg, rs, st, sm) ==
  [id |-> IdOf(i), n |-> i, rank |-> rk, sc |-> IF sc THEN 300 + i ELSE 0, codes |-> cd[1], ex |-> cd[2],
   hf |-> hf, tgt |-> tgt, bf |-> bf, log |-> lg, reset |-> rs, stop |-> st, samp |-> sm]

AddOwn(i) == <<Flt("add", "X-R", IdOf(i))>>
\* status / log / reset / stop interplay; every rule leaves a visible header
PoolA(ids, conds, logs) ==
  { R(i, rk, sc, cd, AddOwn(i), "", <<>>, lg, rs, st, "none") :
      i \in ids, rk \in {0, 1}, sc \in BOOLEAN, cd \in conds, lg \in logs, rs \in BOOLEAN, st \in BOOLEAN }
\* filters, redirect target, sampling
HfOf(i, k) == CASE k = 1 -> <<>> [] k = 2 -> AddOwn(i)
                [] k = 3 -> <<Flt("override", "LOCATION", "/o" \o IdOf(i))>>
                [] k = 4 -> <<Flt("remove", "X-Base", ""), Flt("default", "X-R", "d" \o IdOf(i))>>
HfKinds(i, ks) == {HfOf(i, k) : k \in ks}
PoolB(ids, ranks, conds, ks) ==
  UNION { { R(i, rk, TRUE, cd, hf, tgt, bf, "none", FALSE, FALSE, sm) :
              rk \in ranks, cd \in conds, hf \in HfKinds(i, ks), tgt \in {"", "/t" \o IdOf(i)},
              bf \in {<<>>, <<"+" \o IdOf(i)>>}, sm \in {"none", "0", "100"} } : i \in ids }
\* triples over a reduced pool
PoolC(ids) ==
  { R(i, rk, sc, cd, AddOwn(i), "", <<>>, lg, rs, st, "none") :
      i \in ids, rk \in {0, 1}, sc \in BOOLEAN, cd \in Cond2, lg \in {"none", "on"}, rs \in BOOLEAN, st \in BOOLEAN }

\* C11: equal ranks, conflicting effects (same header overridden, several statuses, resets among ties)
PoolD(ids, conds, logs) ==
  UNION { { R(i, rk, TRUE, cd, <<Flt("override", "X-Same", IdOf(i))>>, "", <<>>, lg, rs, st, "none") :
              rk \in {0, 1}, cd \in conds, lg \in logs, rs \in BOOLEAN, st \in BOOLEAN } : i \in ids }
PoolDq == PoolD({1, 2, 3}, {<<{}, FALSE>>}, {"on", "off"})
PoolDt == PoolD({1, 2, 3}, Cond2, {"none", "on", "off"})
PoolD4 == PoolD({1, 2, 3, 4}, {<<{}, FALSE>>}, {"on"})

\* log / status fallback through JSON: an unconditional rule below a conditional one, both values of the flag
PoolE(ids) ==
  UNION { { R(i, rk, TRUE, cd, AddOwn(i), "", <<>>, lg, FALSE, FALSE, "none") :
              rk \in {0, 1}, cd \in CondM, lg \in {"on", "off"} } : i \in ids }
PoolEq == PoolE({1, 2})

\* stop / reset on rules that may be sampled out: a skipped rule contributes nothing, not even its flags
PoolF(ids, conds) ==
  UNION { { R(i, rk, TRUE, cd, AddOwn(i), "", <<>>, "none", rs, st, sm) :
              rk \in {0, 1}, cd \in conds, rs \in BOOLEAN, st \in BOOLEAN, sm \in {"none", "0", "100"} } : i \in ids }
PoolFq == PoolF({1, 2}, {<<{}, FALSE>>})
PoolFt == PoolF({1, 2, 3}, {<<{}, FALSE>>})

\* a redirect target under lists of THREE codes (written in descending order by the harness), included and excluded: the status, the
\* Location rewrite, the rule's own filters and its trace each carry their own copy of the condition
CondG == { <<{200, 404, 500}, FALSE>>, <<{200, 404, 500}, TRUE>>, <<{404, 500}, FALSE>>, <<{200, 404}, TRUE>> }
PoolG(ids) ==
  UNION { { R(i, rk, TRUE, cd, hf, "/t" \o IdOf(i), <<>>, "none", FALSE, FALSE, "none") :
              rk \in {0, 1}, cd \in CondG, hf \in HfKinds(i, {1, 2}) } : i \in ids }
PoolGq == PoolG({1, 2})

Q(k, c) == [k |-> k, c |-> c]
Proxy(c) == << Q("status", 0), Q("status", c), Q("headers", c), Q("body", c), Q("log", c) >>
ProxyHandoff(c) == << Q("status", 0), Q("handoff", 0), Q("headers", c), Q("status", c), Q("body", c), Q("log", c) >>
Backwards(c) == << Q("log", c), Q("body", c), Q("headers", c), Q("handoff", 0), Q("status", c) >>
RequestTime == << Q("status", 0), Q("headers", 0), Q("log", 0) >>
Mixed == << Q("headers", 404), Q("handoff", 0), Q("headers", 200), Q("status", 0), Q("log", 500) >>

ScriptsQuick == { ProxyHandoff(404), Backwards(200) }
ScriptsFull == { Proxy(200), Proxy(404), ProxyHandoff(404), ProxyHandoff(200), Backwards(200), Backwards(404), RequestTime, Mixed }
ScriptsOne == { ProxyHandoff(404) }
ScriptsCodes == { Proxy(500), Proxy(200), ProxyHandoff(404) }

PoolAq == PoolA({1, 2}, Cond3, {"none", "on"})
PoolAt == PoolA({1, 2}, Cond, {"none", "on", "off"})
PoolBq == PoolB({1, 2}, {0}, Cond2, {1, 3})
PoolBt == PoolB({1, 2}, {0, 1}, Cond3, {1, 2, 3, 4})
PoolCt == PoolC({1, 2, 3})

SeqOfSet(S) == Sorted(S)
Emit == Done => PrintT(<<"REPLAY", ToJson([rules |-> SeqOfSet(rules), ov |-> ov, script |-> script])>>)
=============================================================================
