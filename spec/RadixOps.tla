------------------------------ MODULE RadixOps ------------------------------
(* Pure operators for the regex radix tree (src/regex_radix_tree/*, src/regex.rs).

   Patterns are sequences of TOKENS: literal characters (escaped the way regex::escape does)
   and parenthesised marker groups with a known language.  Conc gives the characters of a
   token as they appear in the pattern string; the tree of the implementation works on those
   characters (common_prefix_char_size), the matching semantics is defined on tokens.

   Layer P: Matches / LinearScan.   Layer I: Insert, TRemove, Retain, Cache, Find, Get, Len
   exactly as node.rs / leaf.rs / item.rs / tree.rs.                                       *)
EXTENDS Naturals, Sequences, FiniteSets, TLC, SequencesExt

\* ---- tokens ----------------------------------------------------------------------------
GroupToks == {"ANY", "LOW", "AS", "ASP", "NS", "OPT", "CLS", "CLB", "NEST", "ELW", "BIGW", "BAD"}
IsGroup(t) == t \in GroupToks

Conc(t) ==
  CASE t = "a" -> <<"a">> [] t = "b" -> <<"b">> [] t = "/" -> <<"/">> [] t = "A" -> <<"A">>
    [] t = "."    -> <<"\\", ".">>                                   \* regex::escape(".")
    [] t = "ANY"  -> <<"(", "?", ":", ".", "*", ")">>
    [] t = "LOW"  -> <<"(", "?", ":", "[", "a", "-", "b", "]", "+", ")">>
    [] t = "AS"   -> <<"(", "?", ":", "a", "+", ")">>
    [] t = "ASP"  -> <<"(", "?", ":", "(", "?", ":", "\\", ")", "|", "a", ")", "+", ")">>   \* escaped paren inside
    [] t = "NS"   -> <<"(", "?", ":", "[", "^", "/", "]", "+", ")">>
    [] t = "OPT"  -> <<"(", "?", ":", "a", "?", ")">>
    [] t = "NEST" -> <<"(", "?", ":", "(", "?", ":", "a", "|", "b", ")", "+", ")">>       \* nested group
    [] t = "CLS"  -> <<"(", "?", ":", "[", "^", ")", "]", "+", ")">>    \* a ')' inside a character class
    [] t = "CLB"  -> <<"(", "?", ":", "[", "]", "(", "a", "]", "+", ")">>   \* a literal ']' first in a class, then '('
    [] t = "BS"   -> <<"\\", "\\">>                                 \* regex::escape of a literal backslash
    [] t = "E("   -> <<"\\", "(">>                                  \* regex::escape("(")
    [] t = "~u~"  -> <<"~u~">>     \* a second two-byte character with the SAME first UTF-8 byte as ~e~ (the harness substitutes both)
    [] t = "~e~"  -> <<"~e~">>     \* a non-ASCII literal (the harness substitutes a 2-byte character): ONE character, two bytes
    [] t = "ELW"  -> <<"(", "?", ":", "~e~", "[", "a", "-", "b", "]", "+", ")">>   \* non-ASCII text inside a marker group
    [] t = "BAD"  -> <<"(", "?", ":", "(", "?", "!", "a", ")", "b", ")">>   \* a look-ahead: the regex engine rejects the expression
    [] t = "BIGW" -> <<"(", "?", ":", "\\", "w", "{", "1", ",", "5", "0", "}", ")">>  \* a Unicode class with a counted repetition: a program of several MiB

RECURSIVE ConcSeq(_)
ConcSeq(p) == IF p = <<>> THEN <<>> ELSE Conc(Head(p)) \o ConcSeq(Tail(p))

\* ---- matching semantics (layer P) --------------------------------------------------------
LowerCh(c) == CASE c = "A" -> "a" [] c = "B" -> "b" [] OTHER -> c
Eq(ic, x, y) == IF ic THEN LowerCh(x) = LowerCh(y) ELSE x = y
InSet(ic, c, S) == IF ic THEN LowerCh(c) \in {LowerCh(x) : x \in S} ELSE c \in S

InLang(ic, g, s) ==
  CASE g = "ANY"  -> TRUE
    [] g = "LOW"  -> Len(s) >= 1 /\ \A i \in 1..Len(s) : InSet(ic, s[i], {"a", "b"})
    [] g = "NEST" -> Len(s) >= 1 /\ \A i \in 1..Len(s) : InSet(ic, s[i], {"a", "b"})
    [] g = "AS"   -> Len(s) >= 1 /\ \A i \in 1..Len(s) : InSet(ic, s[i], {"a"})
    [] g = "ASP"  -> Len(s) >= 1 /\ \A i \in 1..Len(s) : InSet(ic, s[i], {"a"})
    [] g = "NS"   -> Len(s) >= 1 /\ \A i \in 1..Len(s) : s[i] # "/"
    [] g = "CLS"  -> Len(s) >= 1
    [] g = "CLB"  -> Len(s) >= 1 /\ \A i \in 1..Len(s) : InSet(ic, s[i], {"a"})
    [] g = "OPT"  -> s = <<>> \/ (Len(s) = 1 /\ InSet(ic, s[1], {"a"}))
    [] g = "BAD"  -> FALSE      \* a pattern that does not compile matches nothing, warmed or not
    [] g = "BIGW" -> Len(s) >= 1 /\ Len(s) <= 50 /\ \A i \in 1..Len(s) : s[i] \in {"a", "b", "A", "B", "e", "~e~"}
    [] g = "ELW"  -> Len(s) >= 2 /\ s[1] = "~e~" /\ \A i \in 2..Len(s) : InSet(ic, s[i], {"a", "b"})

TokMatch(ic, t, seg) == IF IsGroup(t) THEN InLang(ic, t, seg) ELSE Len(seg) = 1 /\ Eq(ic, seg[1], t)

RECURSIVE Matches(_,_,_)
\* the anchored pattern ^p$ matches s
Matches(ic, p, s) ==
  IF Len(p) = 0 THEN Len(s) = 0
  ELSE \E k \in 0..Len(s) : TokMatch(ic, Head(p), SubSeq(s, 1, k)) /\ Matches(ic, Tail(p), SubSeq(s, k + 1, Len(s)))
\* ^p matches a prefix of s
PrefixMatches(ic, p, s) == \E k \in 0..Len(s) : Matches(ic, p, SubSeq(s, 1, k))

\* ---- common_prefix_char_size, character by character -------------------------------------
RECURSIVE PrefixLoop(_,_,_,_,_,_,_,_)
\* state: position i, last safe cut pl, "current character is escaped" esc, group depth g,
\* character-class depth cl, "just after [ or [^" cs (a ] there is a literal)
PrefixLoop(lft, rgt, i, pl, esc, g, cl, cs) ==
  IF i > Len(lft) \/ i > Len(rgt) THEN pl
  ELSE IF lft[i] # rgt[i] THEN pl
  ELSE LET c == lft[i]
           cl1 == IF cl > 0
                  THEN (IF ~esc /\ c = "[" THEN cl + 1 ELSE IF ~esc /\ c = "]" /\ ~cs THEN cl - 1 ELSE cl)
                  ELSE (IF c = "[" /\ ~esc THEN 1 ELSE 0)
           cs1 == IF cl > 0 THEN cs /\ c = "^" /\ ~esc ELSE c = "[" /\ ~esc
           g1 == IF cl > 0 \/ (c = "[" /\ ~esc) THEN g
                 ELSE IF c = "(" /\ ~esc THEN g + 1 ELSE IF c = ")" /\ ~esc THEN g - 1 ELSE g
           esc1 == c = "\\" /\ ~esc
       IN PrefixLoop(lft, rgt, i + 1, IF g1 = 0 /\ cl1 = 0 /\ ~esc1 THEN i ELSE pl, esc1, g1, cl1, cs1)
CharPrefixLen(lft, rgt) == PrefixLoop(lft, rgt, 1, 0, FALSE, 0, 0, FALSE)

RECURSIVE TokPrefixLen(_,_)
TokPrefixLen(p, q) == IF p = <<>> \/ q = <<>> \/ Head(p) # Head(q) THEN 0 ELSE 1 + TokPrefixLen(Tail(p), Tail(q))

\* number of tokens of p whose characters make up exactly the first n characters; -1 if the
\* cut falls inside a token (the prefix is then not a valid regex: create_regex fails)
TokensInChars(p, n) ==
  LET ks == {k \in 0..Len(p) : Len(ConcSeq(SubSeq(p, 1, k))) = n} IN
  IF ks = {} THEN 0 - 1 ELSE CHOOSE k \in ks : \A j \in ks : j <= k

\* ---- the tree ------------------------------------------------------------------------------
\* leaf: pattern tokens, values as a set of <<id, version>>, compiled flag
\* node: prefix as a number of characters `n` of the pattern `src` it was cut from
EmptyItem == [k |-> "empty"]
LeafItem(p, vals, c) == [k |-> "leaf", pat |-> p, vals |-> vals, c |-> c]
NodeItem(src, n, ch, c) == [k |-> "node", src |-> src, n |-> n, ch |-> ch, c |-> c]

ItemChars(it) == CASE it.k = "empty" -> <<>>
                   [] it.k = "leaf" -> ConcSeq(it.pat)
                   [] it.k = "node" -> SubSeq(ConcSeq(it.src), 1, it.n)

RECURSIVE ItemLen(_)
ItemLen(it) == CASE it.k = "empty" -> 0
                 [] it.k = "leaf" -> Cardinality(it.vals)
                 [] it.k = "node" -> FoldLeft(LAMBDA acc, c : acc + ItemLen(c), 0, it.ch)
ItemIsEmpty(it) == ItemLen(it) = 0

RECURSIVE CachedLen(_)
CachedLen(it) == CASE it.k = "empty" -> 0
                   [] it.k = "leaf" -> IF it.c THEN 1 ELSE 0
                   [] it.k = "node" -> (IF it.c THEN 1 ELSE 0) + FoldLeft(LAMBDA acc, c : acc + CachedLen(c), 0, it.ch)

DropAt(s, i) == SubSeq(s, 1, i - 1) \o SubSeq(s, i + 1, Len(s))
WithId(vals, id, ver) == {v \in vals : v[1] # id} \cup {<<id, ver>>}

\* Node::insert child choice: a child holding exactly the inserted pattern wins (so that an
\* existing (pattern, id) is replaced); otherwise the FIRST child whose common prefix is strictly
\* longer than everything seen so far (the loop only updates on '>')
BestChild(ch, pc, m) ==
  LET cp(i) == CharPrefixLen(pc, ItemChars(ch[i]))
      same == {i \in 1..Len(ch) : ItemChars(ch[i]) = pc}
      cands == {i \in 1..Len(ch) : cp(i) > m}
  IN IF same # {} THEN CHOOSE i \in same : \A j \in same : i <= j
     ELSE IF cands = {} THEN 0
     ELSE CHOOSE i \in cands : /\ \A j \in cands : cp(j) <= cp(i)
                               /\ \A j \in cands : cp(j) = cp(i) => i <= j

RECURSIVE Insert(_,_,_,_)
Insert(it, p, id, ver) ==
  LET pc == ConcSeq(p) IN
  CASE it.k = "empty" -> LeafItem(p, {<<id, ver>>}, FALSE)
    [] it.k = "leaf" ->
         IF p = it.pat THEN LeafItem(p, WithId(it.vals, id, ver), it.c)
         ELSE NodeItem(it.pat, CharPrefixLen(ConcSeq(it.pat), pc), <<it, LeafItem(p, {<<id, ver>>}, FALSE)>>, FALSE)
    [] it.k = "node" ->
         LET ps == CharPrefixLen(pc, ItemChars(it)) IN
         IF ps < it.n
         THEN NodeItem(it.src, ps, <<LeafItem(p, {<<id, ver>>}, FALSE), it>>, FALSE)
         ELSE LET b == BestChild(it.ch, pc, it.n) IN
              IF b = 0 THEN [it EXCEPT !.ch = Append(it.ch, LeafItem(p, {<<id, ver>>}, FALSE))]
              ELSE [it EXCEPT !.ch = Append(DropAt(it.ch, b), Insert(it.ch[b], p, id, ver))]

\* LazyRegex::is_match for a node: empty prefix matches everything; a prefix that is not a
\* valid regex matches nothing
NodeMatches(ic, it, s) ==
  IF it.n = 0 THEN TRUE
  ELSE LET k == TokensInChars(it.src, it.n) IN
       IF k < 0 THEN FALSE ELSE PrefixMatches(ic, SubSeq(it.src, 1, k), s)

RECURSIVE Find(_,_,_)
Find(ic, it, s) ==
  CASE it.k = "empty" -> {}
    [] it.k = "leaf" -> IF Matches(ic, it.pat, s) THEN it.vals ELSE {}
    [] it.k = "node" -> IF NodeMatches(ic, it, s)
                        THEN UNION {Find(ic, it.ch[i], s) : i \in 1..Len(it.ch)} ELSE {}

IsCharPrefix(a, b) == Len(a) <= Len(b) /\ SubSeq(b, 1, Len(a)) = a
RECURSIVE Get(_,_)
Get(it, p) ==
  CASE it.k = "empty" -> {}
    [] it.k = "leaf" -> IF it.pat = p THEN it.vals ELSE {}
    [] it.k = "node" -> IF IsCharPrefix(ItemChars(it), ConcSeq(p))
                        THEN UNION {Get(it.ch[i], p) : i \in 1..Len(it.ch)} ELSE {}

\* Node::remove: stop at the first child that held the id, drop emptied children, return the
\* only child when one is left, keep a childless node otherwise.  Result <<item, removed>>
\* where removed is <<>> or <<value>>
RECURSIVE TRemove(_,_)
RECURSIVE RemoveChildren(_,_,_,_)
RemoveChildren(ch, i, id, found) ==
  IF i > Len(ch) THEN <<<<>>, found>>
  ELSE IF found # <<>> THEN LET r == RemoveChildren(ch, i + 1, id, found) IN <<<<ch[i]>> \o r[1], r[2]>>
  ELSE LET rc == TRemove(ch[i], id)
           r == RemoveChildren(ch, i + 1, id, rc[2])
       IN IF ItemIsEmpty(rc[1]) THEN r ELSE <<<<rc[1]>> \o r[1], r[2]>>
TRemove(it, id) ==
  CASE it.k = "empty" -> <<it, <<>>>>
    [] it.k = "leaf" -> LET hit == {v \in it.vals : v[1] = id} IN
                        IF hit = {} THEN <<it, <<>>>>
                        ELSE IF it.vals = hit THEN <<EmptyItem, <<CHOOSE v \in hit : TRUE>>>>
                        ELSE <<[it EXCEPT !.vals = it.vals \ hit], <<CHOOSE v \in hit : TRUE>>>>
    [] it.k = "node" -> LET r == RemoveChildren(it.ch, 1, id, <<>>) IN
                        IF Len(r[1]) = 1 THEN <<r[1][1], r[2]>> ELSE <<[it EXCEPT !.ch = r[1]], r[2]>>

RECURSIVE Retain(_,_)
Retain(it, keep) ==
  CASE it.k = "empty" -> it
    [] it.k = "leaf" -> LET v == {x \in it.vals : x[1] \in keep} IN
                        IF v = {} THEN EmptyItem ELSE [it EXCEPT !.vals = v]
    [] it.k = "node" -> LET ch == SelectSeq([i \in 1..Len(it.ch) |-> Retain(it.ch[i], keep)], LAMBDA c : ~ItemIsEmpty(c)) IN
                        IF Len(ch) = 0 THEN EmptyItem ELSE IF Len(ch) = 1 THEN ch[1] ELSE [it EXCEPT !.ch = ch]

\* Item::cache -> <<item, left>>.  A node whose prefix is not a valid regex stays uncompiled.
RECURSIVE CacheItem(_,_,_,_)
RECURSIVE CacheChildren(_,_,_,_,_)
CacheChildren(ch, i, left, cl, lvl) ==
  IF i > Len(ch) THEN <<<<>>, left>>
  ELSE LET r == CacheItem(ch[i], left, cl, lvl)
           rest == CacheChildren(ch, i + 1, r[2], cl, lvl)
       IN <<<<r[1]>> \o rest[1], rest[2]>>
CacheItem(it, left, cl, lvl) ==
  IF left = 0 \/ lvl > cl THEN <<it, left>>
  ELSE CASE it.k = "empty" -> <<it, left>>
         \* (an expression the engine rejects stays uncompiled and is not charged to the budget)
         [] it.k = "leaf" -> IF cl = lvl /\ ~it.c /\ "BAD" \notin ToSet(it.pat) THEN <<[it EXCEPT !.c = TRUE], left - 1>> ELSE <<it, left>>
         [] it.k = "node" ->
              LET valid == it.n = 0 \/ (TokensInChars(it.src, it.n) >= 0 /\ "BAD" \notin ToSet(SubSeq(it.src, 1, TokensInChars(it.src, it.n))))
                  doit == cl = lvl /\ ~it.c /\ valid
                  l1 == IF doit THEN left - 1 ELSE left
                  r == CacheChildren(it.ch, 1, l1, cl, lvl + 1)
              IN <<[it EXCEPT !.c = (it.c \/ doit), !.ch = r[1]], r[2]>>

\* RegexTreeMap::cache(limit, level): one pass at `level`, or level by level while progress
RECURSIVE CacheLevels(_,_,_)
CacheLevels(it, left, cl) ==
  IF left = 0 THEN <<it, left>>
  ELSE LET r == CacheItem(it, left, cl, 0) IN
       IF r[2] = left THEN <<it, left>> ELSE CacheLevels(r[1], r[2], cl + 1)
NoLevel == 99
CacheTree(it, limit, level) == IF level # NoLevel THEN CacheItem(it, limit, level, 0) ELSE CacheLevels(it, limit, 0)

\* ---- structural invariant: every child's characters start with its node's prefix -----------
RECURSIVE PrefixInv(_)
PrefixInv(it) ==
  CASE it.k = "node" -> \A i \in 1..Len(it.ch) :
                           /\ (it.ch[i].k # "empty" => IsCharPrefix(ItemChars(it), ItemChars(it.ch[i])))
                           /\ PrefixInv(it.ch[i])
    [] OTHER -> TRUE

RECURSIVE Depth(_)
Depth(it) == CASE it.k = "node" -> 1 + (IF Len(it.ch) = 0 THEN 0 ELSE CHOOSE d \in {Depth(it.ch[i]) : i \in 1..Len(it.ch)} :
                                                                  \A j \in 1..Len(it.ch) : Depth(it.ch[j]) <= d)
               [] OTHER -> 0
=============================================================================
