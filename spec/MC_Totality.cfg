SPECIFICATION Spec
INVARIANTS TypeOK Emit
PROPERTY AlwaysReturns
CHECK_DEADLOCK FALSE
