---------------------------- MODULE Trace_Analysis ----------------------------
(* Trace validation for the analyses (C19; the action-trace clause of C17).
   loop      {g, domains, maxh, start, method, out = [hops, error]}    redirect-chain analysis of a graph
   reset     {cfg}
   analyses  {items, test_examples, unit_ids, impact, impact_reedit, existing_len_*}
       items[k]      per probe: explain = <<project, standalone, standalone with the rules reversed>> (hashes of the
                     projection on status, headers, body, backend code, log decision, applied rule / unit ids, seen
                     unit ids as a set, redirect chain, traced route set), resp_explain / resp_pipeline (hash of the
                     response the analysis reports / the live pipeline produces), trace_action_equal
       test_examples, unit_ids, impact   <<project, standalone, reversed>> hashes
   classes (C19): loop_hop_limit_exceeded, loop_iff_repeat, loop_repeat_not_reported, loop_chain_not_following_rules,
                  loop_stops_without_reason, project_differs_from_standalone, depends_on_rule_order,
                  response_differs_from_pipeline, project_changed_existing_router;  (C17) trace_action_last_differs  *)
EXTENDS Analysis, Json, IOUtils, SequencesExt
TraceLog == ndJsonDeserialize(IOEnv.TRACE)
VARIABLES l
Report(tag, cls) == PrintT(<<tag, l, cls>>)
Judge(ok, cls) == IF ok THEN TRUE ELSE Report("VERDICT", cls)
Drift(ok, cls) == IF ok THEN TRUE ELSE Report("DRIFT", cls)
IsEvent(e) == l <= Len(TraceLog) /\ TraceLog[l].ev = e /\ l' = l + 1

Err(o) == IF o.error = "null" \/ o.error = "" THEN "none" ELSE o.error
HopsOf(o) == [k \in 1..Len(o.hops) |-> [url |-> o.hops[k].url, code |-> o.hops[k].status_code, method |-> o.hops[k].method]]

\* layer I run to completion for the recorded inputs (drift only)
RECURSIVE RunI(_,_,_,_,_,_,_,_)
RunI(gr, dm, mh, hs, cu, cm, k, er) ==
  IF k > mh THEN <<hs, er>>
  ELSE LET e == IF cu \in DOMAIN gr THEN gr[cu] ELSE [code |-> 200, to |-> cu] IN
       IF e.code \notin Redirects THEN <<hs, er>>
       ELSE LET nu == e.to nm == IF e.code \in {301, 302} THEN "GET" ELSE cm
                e1 == IF k > 1 THEN "AtLeastOneHop" ELSE er
                rep == \E j \in 1..Len(hs) : hs[j].url = nu /\ hs[j].method = nm
                hs1 == Append(hs, Hop(nu, e.code, nm))
            IN IF rep THEN <<hs1, "Loop">>
               ELSE IF dm /\ nu \notin DOMAIN gr THEN <<hs1, e1>>
               ELSE IF k >= mh THEN <<hs1, "TooManyHops">>
               ELSE RunI(gr, dm, mh, hs1, nu, nm, k + 1, e1)

TraceLoop ==
  /\ IsEvent("loop")
  /\ LET e == TraceLog[l]
         hs == HopsOf(e.out)
         er == IF e.out.error = "Loop" THEN "Loop" ELSE IF e.out.error = "TooManyHops" THEN "TooManyHops" ELSE IF e.out.error = "AtLeastOneHop" THEN "AtLeastOneHop" ELSE "none"
         ref == LoopRef(hs, er, e.maxh)
         model == RunI(e.g, e.domains, e.maxh, <<Hop(e.start, 0, e.method)>>, e.start, e.method, 1, "none")
     IN /\ Judge(ref = "", "loop_" \o ref)
        /\ Judge(FollowsGraph(e.g, hs), "loop_chain_not_following_rules")
        /\ Judge(hs # <<>> /\ hs[1].url = e.start /\ hs[1].method = e.method, "loop_chain_not_following_rules")
        /\ Judge(StopsForAReason(e.g, e.domains, hs, er, e.maxh) \/ (e.domains /\ hs[Len(hs)].url \notin DOMAIN e.g), "loop_stops_without_reason")
        /\ Drift(model[1] = hs /\ model[2] = er, "loop_layer_I")
        \* the same graph with every rule triggered by the backend's status code: the same chain
        /\ Judge(HopsOf(e.out_b) = hs /\ e.out_b.error = e.out.error, "loop_backend_triggered_chain_differs")
        \* test-examples on the start URL as an example of its rule: it fails exactly when the chain it starts is unsound
        /\ \A k \in 1..2 : Judge(e.te[k] = "none" \/ (e.te[k] = "failed") = (er \in {"Loop", "TooManyHops"}), "test_examples_disagree_with_chain")
AllSame(t) == t[1] = t[2] /\ t[2] = t[3]
TraceReset == IsEvent("reset")
TraceAnalyses ==
  /\ IsEvent("analyses")
  /\ LET e == TraceLog[l] IN
     /\ \A k \in 1..Len(e.items) :
          LET it == e.items[k] IN
          /\ Judge(it.explain[1] = it.explain[2], "project_differs_from_standalone")
          /\ Judge(it.explain[2] = it.explain[3], "depends_on_rule_order")
          /\ Judge(it.resp_explain = it.resp_pipeline,
                   IF it.request_time_with_code THEN "example_code_hides_request_time_decision" ELSE "response_differs_from_pipeline")
          \* the rules the explanation reports as applied are those the live pipeline applies (same queries, same codes)
          /\ Judge(it.request_time_with_code \/ ToSet(it.applied_explain) = ToSet(it.applied_pipeline), "applied_rules_differ_from_pipeline")
          /\ Judge(it.trace_action_equal, "trace_action_last_differs")
     /\ Judge(e.test_examples[1] = e.test_examples[2] /\ e.unit_ids[1] = e.unit_ids[2], "project_differs_from_standalone")
     /\ Judge(e.test_examples[2] = e.test_examples[3] /\ e.unit_ids[2] = e.unit_ids[3], "depends_on_rule_order")
     /\ Judge(e.impact = <<>> \/ e.impact[1] = e.impact[2], "project_differs_from_standalone")
     /\ Judge(e.impact = <<>> \/ e.impact[2] = e.impact[3], "depends_on_rule_order")
     \* the same for another version of the changed rule (a draft edited again under the same action)
     /\ Judge(e.impact_reedit = <<>> \/ e.impact_reedit[1] = e.impact_reedit[2], "project_differs_from_standalone")
     /\ Judge(e.impact_reedit = <<>> \/ e.impact_reedit[2] = e.impact_reedit[3], "depends_on_rule_order")
     /\ \A k \in 1..Len(e.impact_items) :
          Judge(e.impact_items[k].resp_impact = e.impact_items[k].resp_pipeline,
                IF e.impact_items[k].request_time_with_code THEN "example_code_hides_request_time_decision" ELSE "response_differs_from_pipeline")
     /\ Judge(e.existing_len_after = e.existing_len_before, "project_changed_existing_router")
TracePanic == IsEvent("panic") /\ Report("VERDICT", "panic")
TraceNext == TraceLoop \/ TraceReset \/ TraceAnalyses \/ TracePanic
TraceSpec == l = 1 /\ g = 0 /\ domains = 0 /\ maxh = 0 /\ hops = 0 /\ cur = 0 /\ curm = 0 /\ i = 0 /\ err = 0 /\ done = 0 /\ [][TraceNext /\ UNCHANGED vars]_<<l, vars>>
Accepted == LET d == TLCGet("stats").diameter IN
            IF d - 1 = Len(TraceLog) THEN PrintT(<<"ACCEPTED", Len(TraceLog)>>)
            ELSE Print(<<"REJECTED", d, IF d <= Len(TraceLog) THEN TraceLog[d].ev ELSE "eof">>, FALSE)
=============================================================================
