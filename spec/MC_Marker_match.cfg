SPECIFICATION Spec
CONSTANTS
  Mode = "match"
INVARIANTS ChainsClosed Emit
CHECK_DEADLOCK FALSE
