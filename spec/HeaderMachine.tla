--------------------------- MODULE HeaderMachine ---------------------------
(* State machine over the operators of HeaderOps: grow a header list, then apply filters
   one at a time.  TLC checks layer I => layer P in every reachable state. *)
EXTENDS HeaderOps

CONSTANTS Names,      \* header names (strings), closed under Lower
          HValues,    \* values of the headers of the initial list
          FValues,    \* values carried by filters
          Ops         \* operation names, the five known ones and at least one unknown
CONSTANTS MaxH, MaxF
VARIABLES h0,     \* the initial header list
          fs,     \* filters applied so far
          cur,    \* current header list as computed by the code-shaped layer
          prev    \* header list before the last filter
vars == <<h0, fs, cur, prev>>

Init == h0 = <<>> /\ fs = <<>> /\ cur = <<>> /\ prev = <<>>

Grow(n, v) == /\ fs = <<>> /\ Len(h0) < MaxH
              /\ h0' = Append(h0, Hdr(n, v))
              /\ cur' = h0' /\ prev' = h0'
              /\ UNCHANGED fs

ApplyFilter(op, n, v) ==
              /\ Len(fs) < MaxF
              /\ fs' = Append(fs, Flt(op, n, v))
              /\ prev' = cur
              /\ cur' = ApplyI(Flt(op, n, v), cur)
              /\ UNCHANGED h0

\* operations that ignore their value are generated with one value only
FVals(op) == IF op \in {"add", "replace", "override", "default"} THEN FValues ELSE {""}
Next == \/ \E n \in Names, v \in HValues : Grow(n, v)
        \/ \E op \in Ops, n \in Names : \E v \in FVals(op) : ApplyFilter(op, n, v)
Spec == Init /\ [][Next]_vars

\* I => P, step by step and end to end
StepMeetsOpPost == fs # <<>> => OpPost(fs[Len(fs)], prev, cur)
FoldMeetsReference == EqCI(cur, HeaderOpsFold(fs, 1, h0)) /\ cur = FoldI(fs, 1, h0)
FrameCondition == fs # <<>> => Untouched(fs[Len(fs)], prev, cur)
RemoveLeavesNone == (fs # <<>> /\ fs[Len(fs)].op = "remove") => ~Exists(cur, fs[Len(fs)].name)
DefaultIdempotent == (fs # <<>> /\ fs[Len(fs)].op = "default") => ApplyI(fs[Len(fs)], cur) = cur
UnknownIsIdentity == (fs # <<>> /\ fs[Len(fs)].op \notin KnownOps) => cur = prev
=============================================================================
