SPECIFICATION Spec
CONSTANTS
  Patterns <- PBig
  Ids = {"i1", "i2"}
  Haystacks <- ProbesBig
  KeepSets = {{"i1"}}
  Limits = {1, 3}
  Levels = {99}
  IgnoreCase = {FALSE, TRUE}
  MaxOps = 3
VIEW View
INVARIANTS FindCorrect LenCorrect GetCorrect TreeInv RemoveReturnsValue CacheTransparent CacheBudget Emit
CHECK_DEADLOCK FALSE
