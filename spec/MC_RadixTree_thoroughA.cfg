SPECIFICATION Spec
CONSTANTS
  Patterns <- P10
  Ids = {"i1", "i2", "i3"}
  Haystacks <- ProbeSet
  KeepSets = {{"i1"}, {"i2", "i3"}}
  Limits = {1, 2, 3}
  Levels = {0, 1, 2, 99}
  IgnoreCase = {FALSE}
  MaxOps = 4
VIEW View
INVARIANTS FindCorrect LenCorrect GetCorrect TreeInv RemoveReturnsValue CacheTransparent CacheBudget Emit
CHECK_DEADLOCK FALSE
